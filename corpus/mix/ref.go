package mix

// Reference functions written from the README: name match with :typecast and :stringer (String()
// wins where both apply), slices are copied element-wise into fresh storage (nil stays nil), every
// other assignable value (array, map, pointer, pointer to pointer) is assigned as it is, nested
// structs of different types are copied member by member, explicit notations beat the name match,
// an explicit source path through a nil pointer leaves the destination untouched.

func refLv(src []Level) []Grade {
	if src == nil {
		return nil
	}
	out := make([]Grade, len(src))
	for i := range src {
		out[i] = Grade(src[i])
	}
	return out
}

func refNames(src []string) []string {
	if src == nil {
		return nil
	}
	out := make([]string, len(src))
	for i := range src {
		out[i] = src[i]
	}
	return out
}

// the members every method copies unless a notation says otherwise
func refCommon(dst *Dst, src *Src) {
	dst.ID = src.ID
	dst.Arr = src.Arr
	dst.M = src.M
	dst.Grid = src.Grid
	dst.PP = src.PP
	if src.Lv != nil {
		dst.Lv = refLv(src.Lv)
	}
	if src.Names != nil {
		dst.Names = refNames(src.Names)
	}
	dst.Name = src.Name
	dst.Score = src.Score.String()
	dst.Flag = src.Flag
}

func refIn(dst *DIn, src *SIn) {
	dst.A = int64(src.A)
	dst.B = src.B
	dst.L = Grade(src.L)
	dst.D.N = int64(src.D.N)
	dst.D.T = src.D.T
}

func ref_Plain(src *Src) *Dst {
	dst := &Dst{}
	refCommon(dst, src)
	refIn(&dst.In, &src.In)
	return dst
}

// Convs: the converters' results are what the destination gets; ConvE's error ends the function
// at once (README: "the method definition should have error in return value(s)").
func ref_Convs(src *Src) (*Dst, error) {
	dst := &Dst{}
	dst.ID = src.ID
	dst.Arr = src.Arr
	dst.M = src.M
	dst.Grid = src.Grid
	dst.In = Conv(src.In)
	p, err := ConvE(src.PIn)
	if err != nil {
		return nil, err
	}
	dst.PIn = p
	dst.PP = src.PP
	if src.Lv != nil {
		dst.Lv = refLv(src.Lv)
	}
	if src.Names != nil {
		dst.Names = refNames(src.Names)
	}
	dst.Name = src.Name
	dst.Score = src.Score.String()
	dst.Flag = src.Flag
	return dst, nil
}

// RecvArg: receiver is the source, the destination comes as argument (arg style), assignments in
// the order of the destination's fields, the post hook last.
func (r *Src) ref_RecvArg(dst *Dst) error {
	dst.ID = r.ID
	dst.Arr = r.Arr
	dst.M = r.M
	dst.Grid = r.Grid
	refIn(&dst.In, &r.In)
	p, err := ConvE(r.PIn)
	if err != nil {
		return err
	}
	dst.PIn = p
	dst.PP = r.PP
	if r.Lv != nil {
		dst.Lv = refLv(r.Lv)
	}
	if r.Names != nil {
		dst.Names = refNames(r.Names)
	}
	dst.Name = r.Name
	dst.Score = r.Score.String()
	dst.Flag = r.Flag
	return Check(dst, r)
}

func ref_Chains(src *Src) *Dst {
	dst := &Dst{}
	dst.ID = src.ID
	dst.Arr = src.Arr
	dst.M = src.M
	dst.Grid = src.Grid
	dst.In.A = int64(src.In.A)
	dst.In.B = src.In.B
	dst.In.L = Grade(src.In.L)
	dst.In.D.N = int64(src.In.D.N)
	// In.D.T skipped
	dst.In.Z = 5
	dst.PP = src.PP
	if src.Lv != nil {
		dst.Lv = refLv(src.Lv)
	}
	if src.Names != nil {
		dst.Names = refNames(src.Names)
	}
	dst.Name = src.In.Label()
	if src.PIn != nil {
		dst.Score = Up(src.PIn.Label())
	}
	dst.Flag = src.Flag
	if src.PIn != nil {
		dst.Note = src.PIn.B
	}
	if src.PIn != nil {
		dst.Count = src.PIn.D.N
	}
	return dst
}

// Extra: $2 is the first additional argument (a pointer the caller passes non-nil), $3 the second;
// the post hook receives both additional arguments after the last assignment.
func ref_Extra(src *Src, extra *SIn, n int) *Dst {
	dst := &Dst{}
	refCommon(dst, src)
	refIn(&dst.In, &src.In)
	dst.In.D.N = int64(extra.D.N)
	dst.Note = extra.B
	dst.Count = n
	Tally(dst, src, extra, n)
	return dst
}

// Fold: under :case:off the regexp matches ID and Flag as well.
func ref_Fold(src Src) Dst {
	var dst Dst
	refCommon(&dst, &src)
	dst.ID = 0
	dst.Flag = false
	refIn(&dst.In, &src.In)
	dst.Note = "a b"
	return dst
}

// ArgKeep: what is skipped keeps the value the caller's destination had.
func ref_ArgKeep(dst *Dst, src Src) {
	m := dst.M
	refCommon(dst, &src)
	dst.M = m
}

// Templ: $1 is the source operand, $2 the additional argument (both non-nil by the caller's
// contract); every pointer MEMBER on a path may be nil, which leaves the destination untouched.
func ref_Templ(src *Src, extra *SIn) *Dst {
	dst := &Dst{}
	refCommon(dst, src)
	refIn(&dst.In, &src.In)
	if extra.PD != nil {
		dst.In.Z = extra.PD.N
	}
	if src.PIn != nil {
		dst.Note = src.PIn.B
	}
	if src.PGr != nil {
		dst.Count = int(Rank(src.PGr.String()))
	}
	return dst
}
