//go:build convergen

package mix

// :typecast
// :stringer
type Convergen interface {
	Plain(*Src) *Dst
	// :conv Conv In
	// :conv ConvE PIn
	Convs(*Src) (*Dst, error)
	// :style arg
	// :recv r
	// :conv ConvE PIn
	// :postprocess Check
	RecvArg(*Src) (*Dst, error)
	// :map In.Label() Name
	// :map PIn.B Note
	// :conv Up PIn.Label() Score
	// :map PIn.D.N Count
	// :skip In.D.T
	// :literal In.Z 5
	Chains(*Src) *Dst
	// :map $2.B Note
	// :map $2.D.N In.D.N
	// :map $3 Count
	// :postprocess Tally
	Extra(src *Src, extra *SIn, n int) *Dst
	// :case:off
	// :skip /^(id|FLAG)$/
	// :literal Note "a b"
	Fold(Src) Dst
	// :style arg
	// :skip /^In\./
	// :skip M
	ArgKeep(Src) Dst
	// Templ: templated paths below the source operand and below an additional argument that run
	// through pointer members; a converter fed by String() of a pointer, its result converted.
	// :map $1.PIn.B Note
	// :map $2.PD.N In.Z
	// :conv Rank PGr Count
	Templ(src *Src, extra *SIn) *Dst
}
