// Package mix: corpus case for arrays, maps, pointers to pointers, slices of named types, nested
// structs of different types two levels deep, converters on whole structs, error-returning converters
// on pointers, getter chains and nil-guarded paths in explicit notations, additional pointer
// arguments with templated paths, a hook with additional arguments, receiver + arg style + error,
// a case-insensitive :skip regexp and a :literal holding white space.
package mix

import (
	"errors"
	"strconv"
)

// sentinel errors: the very error value of the failing site must come back
var (
	ErrNilIn    = errors.New("nil in")
	ErrNegative = errors.New("negative id")
)

var Trace []string

func note(s string) { Trace = append(Trace, s) }

type Level int32
type Grade int64

func (g Grade) String() string { note("Grade.String"); return "G" + strconv.Itoa(int(g)) }

type Deep struct {
	N int
	T string
}
type DeepX struct {
	N int64
	T string
	U bool
}

type SIn struct {
	A  int
	B  string
	L  Level
	D  Deep
	PD *Deep
}

func (s SIn) Label() string { note("SIn.Label"); return s.B + "#" + strconv.Itoa(s.A) }

type DIn struct {
	A int64
	B string
	L Grade
	D DeepX
	Z int
}

type Src struct {
	ID    int
	Arr   [2]int
	M     map[string]int
	Grid  [2]Deep
	In    SIn
	PIn   *SIn
	PP    **int
	Lv    []Level
	Names []string
	Name  string
	Score Grade
	Flag  bool
	PGr   *Grade
}

type Dst struct {
	ID    int
	Arr   [2]int
	M     map[string]int
	Grid  [2]Deep
	In    DIn
	PIn   *DIn
	PP    **int
	Lv    []Grade
	Names []string
	Name  string
	Score string
	Flag  bool
	Note  string
	Count int
}

func Conv(s SIn) DIn { note("Conv"); return DIn{A: int64(s.A), B: s.B, L: Grade(s.L), Z: 7} }

func ConvE(s *SIn) (*DIn, error) {
	note("ConvE")
	if s == nil {
		return nil, ErrNilIn
	}
	return &DIn{A: int64(s.A)}, nil
}

// Rank takes the text of a grade; its result needs a conversion on the way to Dst.Count.
func Rank(s string) int32 { note("Rank(" + s + ")"); return int32(len(s)) }

func Up(s string) string { note("Up(" + s + ")"); return "U:" + s }

func Check(dst *Dst, src *Src) error {
	note("Check")
	if dst.ID < 0 {
		return ErrNegative
	}
	return nil
}

func Tally(dst *Dst, src *Src, extra *SIn, n int) { note("Tally"); dst.Count = dst.Count + n }
