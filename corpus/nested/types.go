// Package nested: corpus case for notations that address a member of a nested struct whose type
// is the SAME on both sides (so that, without the notation, the struct would be copied whole),
// including members that are themselves structs, two levels deep.
package nested

type Tags struct{ A, B string }

type Inner struct {
	K Tags
	N int
}

type Meta struct {
	Note  string
	Tags  Tags
	Inner Inner
	P     *Tags
}

type Src struct {
	ID   int
	Meta Meta
	Alt  Tags
}

type Dst struct {
	ID   int
	Meta Meta
}

// SrcG hands out its Meta through a getter; DstG has a field of that name and type.
type SrcG struct {
	ID   int
	meta Meta
}

func (s *SrcG) Info() Meta { return s.meta }

type DstG struct {
	ID   int
	Info Meta
}
