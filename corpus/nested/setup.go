//go:build convergen

package nested

type Convergen interface {
	// nothing addresses a member: the struct is copied whole
	Whole(*Src) *Dst
	// :skip Meta.Tags
	SkipStructMember(*Src) *Dst
	// :literal Meta.Tags Tags{A: "lit"}
	LiteralStructMember(*Src) *Dst
	// :map Alt Meta.Tags
	MapStructMember(*Src) *Dst
	// :skip Meta.Inner.K
	SkipDeepStructMember(*Src) *Dst
	// :skip Meta.Inner.K.B
	// :skip Meta.Note
	SkipDeepLeaf(*Src) *Dst
	// :style arg
	// :skip Meta.Tags
	// :skip Meta.P
	SkipStructMemberArg(*Src) *Dst
	// :skip /^Meta\.(Tags|Inner)$/
	SkipRegexpStructMembers(Src) Dst
	// the same-named source is a GETTER that returns the destination's type
	// :getter
	// :skip Info.Note
	// :literal Info.Tags.A "lit"
	GetterMember(*SrcG) *DstG
	// :style arg
	// :getter
	// :skip Info.Inner.N
	GetterMemberArg(*SrcG) *DstG
	// a :skip written before the :case:off that governs it
	// :style arg
	// :skip id
	// :skip /^meta\.NOTE$/
	// :case:off
	SkipThenCaseOff(*Src) *Dst
}
