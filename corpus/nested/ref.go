package nested

// Reference functions written from the README: a notation on a member of a nested struct is
// honoured even when the enclosing struct could be assigned whole; everything not addressed is
// copied by name, member by member.

func ref_Whole(src *Src) *Dst {
	return &Dst{ID: src.ID, Meta: src.Meta}
}

func ref_SkipStructMember(src *Src) *Dst {
	dst := &Dst{ID: src.ID}
	dst.Meta.Note = src.Meta.Note
	dst.Meta.Inner = src.Meta.Inner
	dst.Meta.P = src.Meta.P
	return dst
}

func ref_LiteralStructMember(src *Src) *Dst {
	dst := ref_SkipStructMember(src)
	dst.Meta.Tags = Tags{A: "lit"}
	return dst
}

func ref_MapStructMember(src *Src) *Dst {
	dst := ref_SkipStructMember(src)
	dst.Meta.Tags = src.Alt
	return dst
}

func ref_SkipDeepStructMember(src *Src) *Dst {
	dst := &Dst{ID: src.ID}
	dst.Meta.Note = src.Meta.Note
	dst.Meta.Tags = src.Meta.Tags
	dst.Meta.Inner.N = src.Meta.Inner.N
	dst.Meta.P = src.Meta.P
	return dst
}

func ref_SkipDeepLeaf(src *Src) *Dst {
	dst := &Dst{ID: src.ID}
	dst.Meta.Tags = src.Meta.Tags
	dst.Meta.Inner.K.A = src.Meta.Inner.K.A
	dst.Meta.Inner.N = src.Meta.Inner.N
	dst.Meta.P = src.Meta.P
	return dst
}

func ref_SkipStructMemberArg(dst *Dst, src *Src) {
	dst.ID = src.ID
	dst.Meta.Note = src.Meta.Note
	dst.Meta.Inner = src.Meta.Inner
}

func ref_SkipRegexpStructMembers(src Src) Dst {
	var dst Dst
	dst.ID = src.ID
	dst.Meta.Note = src.Meta.Note
	dst.Meta.P = src.Meta.P
	return dst
}

func ref_SkipThenCaseOff(dst *Dst, src *Src) {
	dst.Meta.Tags = src.Meta.Tags
	dst.Meta.Inner = src.Meta.Inner
	dst.Meta.P = src.Meta.P
}

func ref_GetterMember(src *SrcG) *DstG {
	dst := &DstG{ID: src.ID}
	dst.Info.Tags = src.meta.Tags
	dst.Info.Tags.A = "lit"
	dst.Info.Inner = src.meta.Inner
	dst.Info.P = src.meta.P
	return dst
}

func ref_GetterMemberArg(dst *DstG, src *SrcG) {
	dst.ID = src.ID
	dst.Info.Note = src.meta.Note
	dst.Info.Tags = src.meta.Tags
	dst.Info.Inner.K = src.meta.Inner.K
	dst.Info.P = src.meta.P
}
