//go:build convergen

package edge

type Convergen interface {
	// Load: the receiver named e is the destination (README: receiver of an Event is e).
	// :recv e
	// :reverse
	// :style arg
	// :typecast
	Load(*Entry) *Row
	// FromRow: the named result i is the destination.
	// :typecast
	FromRow(src *Row) (i *Entry)
	// :stringer
	WithStringer(*Row) *Entry
	// :conv ToAddrRow Addr
	WithGenerated(*Row) *Entry
	// ToAddrRow is used as a converter above.
	ToAddrRow(*Addr) *AddrRow
	// :map $2 Detail.Owner
	// :map $1.Name Lvl
	WithArgs(src *Row, owner string) *Entry
	// :conv ToAddrRow Inner.Addr Other
	ThroughPointer(*Deep) *Flat
	// :recv e
	Clone(*Node) (elem *Node)
}
