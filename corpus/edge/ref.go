package edge

func refCommon(dst *Entry, src *Row, typecast bool) {
	if src.Tags != nil {
		dst.Tags = make([]*Tag, len(src.Tags))
		for k := range src.Tags {
			dst.Tags[k] = src.Tags[k]
		}
	}
	if typecast && src.Codes != nil {
		dst.Codes = make([]int64, len(src.Codes))
		for k := range src.Codes {
			dst.Codes[k] = int64(src.Codes[k])
		}
	}
	dst.Name = src.Name
	dst.Detail.Owner = src.Detail.Owner
	dst.Detail.Count = src.Detail.Count
}

// under :typecast the convertible pointer and struct members are converted as a whole
func refCast(dst *Entry, src *Row) {
	refCommon(dst, src, true)
	dst.Addr = (*AddrRow)(src.Addr)
	dst.Detail = Detail(src.Detail)
}

// Load: with :reverse the receiver e is the destination, the argument the source.
func (e *Entry) ref_Load(src *Row) { refCast(e, src) }

func ref_FromRow(src *Row) *Entry {
	dst := &Entry{}
	refCast(dst, src)
	return dst
}

// WithStringer: String() is called on the value the pointer points to - when there is one.
func ref_WithStringer(src *Row) *Entry {
	dst := &Entry{}
	refCommon(dst, src, false)
	if src.Lvl != nil {
		dst.Lvl = src.Lvl.String()
	}
	return dst
}

func ref_ToAddrRow(src *Addr) *AddrRow { return &AddrRow{City: src.City} }

// WithGenerated: a nil nested pointer has nothing to convert.
func ref_WithGenerated(src *Row) *Entry {
	dst := &Entry{}
	refCommon(dst, src, false)
	if src.Addr != nil {
		dst.Addr = ref_ToAddrRow(src.Addr)
	}
	return dst
}

func ref_WithArgs(src *Row, owner string) *Entry {
	dst := &Entry{}
	refCommon(dst, src, false)
	dst.Detail.Owner = owner
	dst.Lvl = src.Name
	return dst
}

// ThroughPointer: nothing to convert when a pointer on the path is nil.
func ref_ThroughPointer(src *Deep) *Flat {
	dst := &Flat{Name: src.Name}
	if src.Inner != nil && src.Inner.Addr != nil {
		dst.Other = ref_ToAddrRow(src.Inner.Addr)
	}
	return dst
}

func (e *Node) ref_Clone() *Node {
	elem := &Node{Name: e.Name}
	if e.Sub != nil {
		elem.Sub = make([]*Leaf, len(e.Sub))
		for k := range e.Sub {
			elem.Sub[k] = e.Sub[k]
		}
	}
	return elem
}
