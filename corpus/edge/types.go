// Package edge: corpus case for shapes at the edge of the generator's templates: a destination
// named like the copy loop's variables, String() on nil pointers, generated converters on nil
// nested pointers, additional arguments mapped into nested members.
package edge

var Trace []string

func note(s string) { Trace = append(Trace, s) }

type Tag struct{ K string }

type Level int

func (l Level) String() string { note("Level.String"); return "L" }

type Entry struct {
	Tags   []*Tag
	Codes  []int64
	Name   string
	Lvl    string
	Addr   *AddrRow
	Detail Detail
}

type Detail struct {
	Owner string
	Count int
}

type Row struct {
	Tags   []*Tag
	Codes  []int32
	Name   string
	Lvl    *Level
	Addr   *Addr
	Detail DetailIn
}

type DetailIn struct {
	Owner string
	Count int
}

type Addr struct{ City string }

type AddrRow struct{ City string }

type InnerRow struct{ Addr *Addr }

type Deep struct {
	Inner *InnerRow
	Name  string
}

type Flat struct {
	Other *AddrRow
	Name  string
}

// Node is copied with the names e (source) and elem (destination).
type Node struct {
	Sub  []*Leaf
	Name string
}

type Leaf struct{ V int }
