// Package more: corpus case for embedded and anonymous structs, getters, imported types with an
// import alias, case-insensitive matching, :match none, several converter interfaces and the
// pointer/value matrix of hooks.
package more

import x "verifcorpus/ext"

var Trace []string

func note(s string) { Trace = append(Trace, s) }

type Base struct {
	ID  int
	Rev int
}

type Src struct {
	Base
	name   string
	Price  int64
	Tag    x.Tag
	Meta   x.Meta
	Anon   struct{ P, Q int }
	Kind   kind
	UPPER  string
	Mixed  string
	Opt    *int
}

type kind int

func (s *Src) Name() string  { note("Src.Name"); return "n:" + s.name }
func (s Src) Shout() string  { note("Src.Shout"); return s.UPPER + "!" }
func (s *Src) Price2() int64 { note("Src.Price2"); return s.Price * 2 }

type Dst struct {
	Base
	Name   string
	Shout  string
	Price  x.Money
	Price2 int64
	Tag    string
	Meta   x.Meta
	Anon   struct{ P, Q int }
	Kind   int
	Upper  string
	MIXED  string
	Opt    *int
	Label  string
}

// Hooks of every pointer/value shape; they record what they see.
func HookPP(d *Dst, s *Src) { note("HookPP " + d.Name + "/" + s.Mixed); d.Label = "pp" }
func HookPV(d *Dst, s Src)  { note("HookPV " + d.Name + "/" + s.Mixed) }
func HookVP(d Dst, s *Src)  { note("HookVP " + d.Name + "/" + s.Mixed) }
func HookVV(d Dst, s Src)   { note("HookVV " + d.Name + "/" + s.Mixed) }
