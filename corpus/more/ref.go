package more

import x "verifcorpus/ext"

// References written from the README (":getter": getters win over fields; ":typecast";
// ":stringer"; ":case:off"; ":match none": only what :map/:conv/:literal name explicitly;
// hooks: pre after the destination exists and before any assignment, post after the last one,
// operands passed by pointer or value exactly as the hook declares).

func refPlain(dst *Dst, src *Src) {
	dst.Base = src.Base
	dst.Meta = src.Meta
	dst.Anon = src.Anon
	dst.Opt = src.Opt
}

func refGetterCast(dst *Dst, src *Src, stringer, nocase bool) {
	dst.Base = src.Base
	dst.Name = src.Name()
	dst.Shout = src.Shout()
	dst.Price = x.Money(src.Price)
	dst.Price2 = src.Price2()
	if stringer {
		dst.Tag = src.Tag.String()
	} else {
		dst.Tag = string(src.Tag)
	}
	dst.Meta = src.Meta
	dst.Anon = src.Anon
	dst.Kind = int(src.Kind)
	if nocase {
		dst.Upper = src.UPPER
		dst.MIXED = src.Mixed
	}
	dst.Opt = src.Opt
}

func ref_Full(src *Src) *Dst   { dst := &Dst{}; refGetterCast(dst, src, true, false); return dst }
func ref_NoCase(src *Src) *Dst { dst := &Dst{}; refGetterCast(dst, src, false, true); return dst }

func ref_OnlyExplicit(src *Src) *Dst {
	dst := &Dst{}
	dst.Price = x.Money(src.Price)
	dst.Kind = 3
	dst.Label = src.Name()
	return dst
}

func ref_Plain(src Src) Dst { var dst Dst; refPlain(&dst, &src); return dst }

func ref_PtrPtr(src *Src) *Dst {
	dst := &Dst{}
	HookPP(dst, src)
	refPlain(dst, src)
	HookPV(dst, *src)
	return dst
}

func ref_ValVal(src Src) Dst {
	var dst Dst
	HookVP(dst, &src)
	refPlain(&dst, &src)
	HookVV(dst, src)
	return dst
}

func ref_ArgVal(dst *Dst, src Src) {
	HookPV(dst, src)
	refPlain(dst, &src)
	HookVP(*dst, &src)
}

func ref_ArgPtr(dst *Dst, src *Src) {
	HookVV(*dst, *src)
	refPlain(dst, src)
	HookPP(dst, src)
}
