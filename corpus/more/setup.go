//go:build convergen

package more

import x "verifcorpus/ext"

var _ x.Tag

// :typecast
// :getter
type Convergen interface {
	// :stringer
	Full(*Src) *Dst
	// :case:off
	NoCase(*Src) *Dst
	// :match none
	// :map Price Price
	// :map Name() Label
	// :literal Kind 3
	OnlyExplicit(*Src) *Dst
	// :getter:off
	// :typecast:off
	Plain(Src) Dst
}

// :convergen
type WithHooks interface {
	// :preprocess HookPP
	// :postprocess HookPV
	PtrPtr(*Src) *Dst
	// :preprocess HookVP
	// :postprocess HookVV
	ValVal(Src) Dst
	// :style arg
	// :preprocess HookPV
	// :postprocess HookVP
	ArgVal(Src) Dst
	// :style arg
	// :preprocess HookVV
	// :postprocess HookPP
	ArgPtr(*Src) *Dst
}
