//go:build convergen

package errs

type Convergen interface {
	// Chain: three error-capable sites (top-level converters and a converter on a nested path).
	// :conv ConvA A
	// :conv ConvB In.V In.V
	// :map G() C
	// :conv Plain B
	Chain(*Src) (*Dst, error)
	// Hooks: error-returning pre and post hooks around an error-capable converter.
	// :preprocess Pre
	// :conv ConvA A
	// :postprocess Post
	Hooks(*Src) (*Dst, error)
	// HooksArg: the same in arg style with a by-value destination.
	// :style arg
	// :preprocess Pre
	// :conv ConvB B
	// :postprocess Post
	HooksArg(Src) (Dst, error)
	// HooksVal: return style with a by-value destination.
	// :preprocess Pre
	// :postprocess Post
	HooksVal(*Src) (Dst, error)
	// WithClock: an error-returning getter of an additional argument.
	// :map $2.Stamp() C
	WithClock(src *Src, clock *Clock) (*Dst, error)
	// HookShapes: by-value hook, hook with additional argument, no error result.
	// :preprocess PreVal
	// :postprocess PostArgs
	HookShapes(src *Src, tag string) *Dst
}
