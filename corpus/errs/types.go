// Package errs: corpus case for error propagation (C07) and hooks (C10).
package errs

import "errors"

var Trace []string

func note(s string) { Trace = append(Trace, s) }

var (
	ErrA    = errors.New("conv A failed")
	ErrB    = errors.New("conv B failed")
	ErrGet  = errors.New("getter failed")
	ErrPre  = errors.New("pre hook failed")
	ErrPost = errors.New("post hook failed")
)

type In struct {
	V string
	W string
}

type Src struct {
	A    string
	B    string
	C    string
	In   In
	fail string
}

// G is an error-returning getter (usable through :map G() ...).
func (s *Src) G() (string, error) {
	note("G")
	if s.fail == "get" {
		return "", ErrGet
	}
	return "g:" + s.C, nil
}

type InX struct {
	V string
	W string
	X int
}

type Dst struct {
	A  string
	B  string
	C  string
	In InX
	N  int
}

func ConvA(s string) (string, error) {
	note("ConvA(" + s + ")")
	if s == "badA" {
		return "", ErrA
	}
	return "a:" + s, nil
}

func ConvB(s string) (string, error) {
	note("ConvB(" + s + ")")
	if s == "badB" {
		return "", ErrB
	}
	return "b:" + s, nil
}

func Plain(s string) string { note("Plain(" + s + ")"); return "p:" + s }

// Hooks: they record the operands they see.
func Pre(dst *Dst, src *Src) error {
	note("Pre dst.A=" + dst.A + " src.A=" + src.A)
	dst.N = 7 // not a matched field: survives; dst.A is overwritten by the copy
	dst.A = "set-by-pre"
	if src.fail == "pre" {
		return ErrPre
	}
	return nil
}

func Post(dst *Dst, src *Src) error {
	note("Post dst.A=" + dst.A + " dst.In.V=" + dst.In.V)
	if src.fail == "post" {
		return ErrPost
	}
	return nil
}

func PreVal(dst Dst, src Src)               { note("PreVal dst.A=" + dst.A) }
func PostArgs(dst *Dst, src *Src, tag string) { note("PostArgs " + tag + " dst.B=" + dst.B) }

var ErrClock = errors.New("clock failed")

type Clock struct{ Broken bool }

func (c *Clock) Stamp() (string, error) {
	note("Clock.Stamp")
	if c.Broken {
		return "", ErrClock
	}
	return "now", nil
}
