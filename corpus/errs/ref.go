package errs

// References written from the statement of C07 / C10: the first failing converter, getter or hook
// ends the function with that very error and no later user function is called; pre runs after the
// destination exists and before any assignment, post after the last assignment.

func ref_Chain(src *Src) (*Dst, error) {
	dst := &Dst{}
	var err error
	if dst.A, err = ConvA(src.A); err != nil {
		return nil, err
	}
	dst.B = Plain(src.B)
	if dst.C, err = src.G(); err != nil {
		return nil, err
	}
	if dst.In.V, err = ConvB(src.In.V); err != nil {
		return nil, err
	}
	dst.In.W = src.In.W
	return dst, nil
}

func ref_Hooks(src *Src) (*Dst, error) {
	dst := &Dst{}
	var err error
	if err = Pre(dst, src); err != nil {
		return dst, err
	}
	if dst.A, err = ConvA(src.A); err != nil {
		return nil, err
	}
	dst.B = src.B
	dst.C = src.C
	dst.In.V = src.In.V
	dst.In.W = src.In.W
	if err = Post(dst, src); err != nil {
		return dst, err
	}
	return dst, nil
}

func ref_HooksArg(dst *Dst, src Src) error {
	var err error
	if err = Pre(dst, &src); err != nil {
		return err
	}
	dst.A = src.A
	if dst.B, err = ConvB(src.B); err != nil {
		return err
	}
	dst.C = src.C
	dst.In.V = src.In.V
	dst.In.W = src.In.W
	return Post(dst, &src)
}

func ref_HookShapes(src *Src, tag string) *Dst {
	dst := &Dst{}
	PreVal(*dst, *src)
	dst.A = src.A
	dst.B = src.B
	dst.C = src.C
	dst.In.V = src.In.V
	dst.In.W = src.In.W
	PostArgs(dst, src, tag)
	return dst
}

func ref_HooksVal(src *Src) (Dst, error) {
	var dst Dst
	if err := Pre(&dst, src); err != nil {
		return dst, err
	}
	dst.A = src.A
	dst.B = src.B
	dst.C = src.C
	dst.In.V = src.In.V
	dst.In.W = src.In.W
	if err := Post(&dst, src); err != nil {
		return dst, err
	}
	return dst, nil
}

func ref_WithClock(src *Src, clock *Clock) (*Dst, error) {
	dst := &Dst{}
	var err error
	dst.A = src.A
	dst.B = src.B
	if dst.C, err = clock.Stamp(); err != nil {
		return nil, err
	}
	dst.In.V = src.In.V
	dst.In.W = src.In.W
	return dst, nil
}
