package slices

// References written from the statement of C16 / README: a matched slice field receives a NEWLY
// ALLOCATED slice of the same length with equal (or converted) elements; a nil source leaves the
// destination field as it was.

func copyInts(dst *[]int, src []int) {
	if src != nil {
		*dst = make([]int, len(src))
		for i := range src {
			(*dst)[i] = src[i]
		}
	}
}

func refA(dst *DstA, src *SrcA, typecast bool) {
	copyInts(&dst.Ints, src.Ints)
	if typecast && src.IDs != nil {
		dst.IDs = make([]ID, len(src.IDs))
		for i, e := range src.IDs {
			dst.IDs[i] = ID(e)
		}
	}
	if src.Items != nil {
		dst.Items = make([]Item, len(src.Items))
		for i, e := range src.Items {
			dst.Items[i] = e
		}
	}
	if typecast && src.Named != nil {
		dst.Named = make([]int, len(src.Named))
		for i, e := range src.Named {
			dst.Named[i] = int(e)
		}
	}
}

func ref_CastA(src *SrcA) *DstA      { dst := &DstA{}; refA(dst, src, true); return dst }
func ref_NoCastA(src *SrcA) *DstA    { dst := &DstA{}; refA(dst, src, false); return dst }
func ref_IntoA(dst *DstA, src *SrcA) { refA(dst, src, true) }

func refB(dst *DstB, src *SrcB) {
	if src.Ptrs != nil {
		dst.Ptrs = make([]*Item, len(src.Ptrs))
		for i, e := range src.Ptrs {
			dst.Ptrs[i] = e
		}
	}
	if src.Strs != nil {
		dst.Strs = make([]interface{}, len(src.Strs))
		for i, e := range src.Strs {
			dst.Strs[i] = e
		}
	}
	copyInts(&dst.Same, src.Same)
	copyInts(&dst.Shared, src.Shared)
}

func ref_CopyB(src *SrcB) *DstB     { dst := &DstB{}; refB(dst, src); return dst }
func ref_IntoB(dst *DstB, src SrcB) { refB(dst, &src) }

func ref_CopyN(src *SrcN) *DstN {
	dst := &DstN{}
	copyInts((*[]int)(&dst.Both), src.Both)
	copyInts(&dst.ToRaw, src.ToRaw)
	copyInts((*[]int)(&dst.ToList), src.ToList)
	if src.Items != nil {
		dst.Items = make(ItemList, len(src.Items))
		for i, e := range src.Items {
			dst.Items[i] = e
		}
	}
	return dst
}

func ref_FromGetters(src *SrcG) *DstG {
	dst := &DstG{}
	if src.tracks != nil {
		dst.Tracks = make([]string, len(src.tracks))
		for i := range src.tracks {
			dst.Tracks[i] = src.tracks[i]
		}
	}
	copyInts(&dst.Scores, src.scores)
	return dst
}

// manual_CopyC: no reference function - two outcomes are right (the field is reported as unmatched
// and left alone, or it is copied into fresh storage by means that do not name the element type);
// G_Extra_Unspellable states both.
func manual_CopyC() {}
