// Package slices: corpus case for slice copies (C16).
package slices

import "verifcorpus/ext"

type ID int

type Item struct {
	N int
	S string
}

type SrcA struct {
	Ints  []int
	IDs   []int
	Items []Item
	Named []ID
}

type DstA struct {
	Ints  []int
	IDs   []ID
	Items []Item
	Named []int
	Other []int
}

type SrcB struct {
	Ptrs   []*Item
	Strs   []string
	Same   []int
	Shared []int
}

type DstB struct {
	Ptrs   []*Item
	Strs   []interface{}
	Same   []int
	Shared []int
}

// Named slice types (C16 speaks about slice FIELDS; a defined slice type is one).
type IntList []int

type ItemList []Item

type SrcN struct {
	Both   IntList
	ToRaw  IntList
	ToList []int
	Items  ItemList
}

type DstN struct {
	Both   IntList
	ToRaw  []int
	ToList IntList
	Items  ItemList
}

// SrcG exposes its slices through getters only.
type SrcG struct {
	tracks []string
	scores []int
}

func (s *SrcG) Tracks() []string { return s.tracks }
func (s *SrcG) Scores() []int    { return s.scores }

type DstG struct {
	Tracks []string
	Scores []int
}

// SrcC / DstC: a nested struct of an imported package with a slice of a type this package cannot
// spell: the tool cannot write make([]ext.unit, n); whatever it does instead, the destination must
// not share storage with the source.
type SrcC struct{ Bag ext.Bag }

type DstC struct{ Bag ext.Bag2 }
