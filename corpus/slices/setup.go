//go:build convergen

package slices

type Convergen interface {
	// CopyC: see SrcC (judged by the hand-written harness G_Extra_Unspellable only).
	CopyC(*SrcC) *DstC
	// :typecast
	CastA(*SrcA) *DstA
	// NoCastA: element conversions need :typecast.
	NoCastA(*SrcA) *DstA
	// :style arg
	// :typecast
	IntoA(*SrcA) *DstA
	// CopyB: pointer, interface and shared slices.
	CopyB(*SrcB) *DstB
	// :style arg
	IntoB(SrcB) DstB
	// :getter
	FromGetters(*SrcG) *DstG
	// CopyN: fields of defined slice types.
	CopyN(*SrcN) *DstN
}
