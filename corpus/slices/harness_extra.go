package slices

import "verifcorpus/vrt"

// G_Extra_SharedBacking: two source fields share one backing array; a later write to a source
// element must not be visible through any destination slice (and vice versa).
func G_Extra_SharedBacking() {
	base := make([]int, 2, 4)
	vrt.Arbitrary("base0", &base[0])
	vrt.Arbitrary("base1", &base[1])
	src := &SrcB{Same: base[:1], Shared: base[:2]}
	dst := CopyB(src)
	vrt.AssertNoAlias("destination-has-fresh-storage", dst, src)
	vrt.AssertNoAlias("destination-fields-do-not-share", &dst.Same, &dst.Shared)
	before0, before1 := dst.Shared[0], dst.Shared[1]
	base[0], base[1] = base[0]+1, base[1]+1
	vrt.AssertEqual("later-source-write-not-visible", []int{before0, before1}, dst.Shared)
	vrt.AssertEqual("lengths", []int{len(dst.Same), len(dst.Shared)}, []int{1, 2})
	dst.Same[0] = dst.Same[0] + 5
	vrt.AssertEqual("destination-write-not-visible-in-source", src.Shared[0], base[0])
	vrt.Reach("end")
}
