package slices

import (
	"verifcorpus/ext"
	"verifcorpus/vrt"
)

// G_Extra_SharedBacking: two source fields share one backing array; a later write to a source
// element must not be visible through any destination slice (and vice versa).
func G_Extra_SharedBacking() {
	base := make([]int, 2, 4)
	vrt.Arbitrary("base0", &base[0])
	vrt.Arbitrary("base1", &base[1])
	src := &SrcB{Same: base[:1], Shared: base[:2]}
	dst := CopyB(src)
	vrt.AssertNoAlias("destination-has-fresh-storage", dst, src)
	vrt.AssertNoAlias("destination-fields-do-not-share", &dst.Same, &dst.Shared)
	before0, before1 := dst.Shared[0], dst.Shared[1]
	base[0], base[1] = base[0]+1, base[1]+1
	vrt.AssertEqual("later-source-write-not-visible", []int{before0, before1}, dst.Shared)
	vrt.AssertEqual("lengths", []int{len(dst.Same), len(dst.Shared)}, []int{1, 2})
	dst.Same[0] = dst.Same[0] + 5
	vrt.AssertEqual("destination-write-not-visible-in-source", src.Shared[0], base[0])
	vrt.Reach("end")
}

// G_Extra_Unspellable: a slice whose element type the generated package cannot name is either left
// alone (reported as unmatched) or copied into FRESH storage: never a slice over the source's array.
func G_Extra_Unspellable() {
	var n, a0, a1 int
	vrt.Arbitrary("n", &n)
	vrt.Arbitrary("a0", &a0)
	vrt.Arbitrary("a1", &a1)
	src := &SrcC{Bag: ext.NewBag(n, a0, a1)}
	dst := CopyC(src)
	vrt.AssertEqual("other-members-copied", dst.Bag.N, n)
	if dst.Bag.Items != nil {
		vrt.AssertEqual("length", len(dst.Bag.Items), 2)
		vrt.AssertEqual("elements", []int{dst.Bag.At(0), dst.Bag.At(1)}, []int{a0, a1})
		vrt.AssertNoAlias("destination-has-fresh-storage", dst, src)
		src.Bag.Set(0, a0+1)
		vrt.AssertEqual("later-source-write-not-visible", dst.Bag.At(0), a0)
		dst.Bag.Set(1, a1+5)
		vrt.AssertEqual("destination-write-not-visible-in-source", src.Bag.At(1), a1)
	}
	var empty SrcC
	vrt.AssertEqual("nil-stays-nil", len(CopyC(&empty).Bag.Items), 0)
	vrt.Assert("nil-stays-nil-not-empty", CopyC(&empty).Bag.Items == nil)
	vrt.Reach("end")
}
