module verifcorpus

go 1.19
