// Package ext: imported types of the corpus.
package ext

type Money int64

type Tag string

func (t Tag) String() string { return "#" + string(t) }

type Meta struct {
	Rev   int
	Owner string
	inner int
}

func (m *Meta) Inner() int { return m.inner }

// NewMeta builds a Meta with its unexported member set.
func NewMeta(rev int, owner string, inner int) Meta { return Meta{rev, owner, inner} }
