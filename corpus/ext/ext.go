// Package ext: imported types of the corpus.
package ext

type Money int64

type Tag string

func (t Tag) String() string { return "#" + string(t) }

type Meta struct {
	Rev   int
	Owner string
	inner int
}

func (m *Meta) Inner() int { return m.inner }

// NewMeta builds a Meta with its unexported member set.
func NewMeta(rev int, owner string, inner int) Meta { return Meta{rev, owner, inner} }

type unit int

// Bag / Bag2: exported slice fields whose element type an importing package cannot spell
// (no make([]ext.unit, n) there), with accessors to build and inspect them from outside.
type Bag struct {
	Items []unit
	N     int
}

type Bag2 struct {
	Items []unit
	N     int
	Pad   int
}

// NewBag builds a Bag whose Items have spare capacity (an append to a prefix of it lands in the
// same backing array).
func NewBag(n int, vals ...int) Bag {
	items := make([]unit, len(vals), len(vals)+2)
	for i, v := range vals {
		items[i] = unit(v)
	}
	return Bag{Items: items, N: n}
}

func (b *Bag) At(i int) int      { return int(b.Items[i]) }
func (b *Bag) Set(i int, v int)  { b.Items[i] = unit(v) }
func (b *Bag2) At(i int) int     { return int(b.Items[i]) }
func (b *Bag2) Set(i int, v int) { b.Items[i] = unit(v) }
