package basic

// Reference functions, written from the README's description of the notations on each method
// (they never look at the tool's output). Zero value of the destination in return style,
// previous value kept for every field that is not assigned.

// default copy under :typecast + :stringer (README ":typecast", ":stringer", nested structs).
func refDefault(dst *Dst, src *Src) {
	dst.ID = int64(src.ID)
	dst.Name = src.Name
	dst.Status = src.Status.String()
	dst.Age = int64(src.Age)
	dst.Code = string(src.Code)
	dst.Ptr = src.Ptr
	dst.Home.City = src.Home.City
	dst.Home.Zip = int64(src.Home.Zip)
	// Home.Geo: no source member => unchanged
	dst.Work = src.Work
	dst.Geo = src.Geo
	dst.Ratio = src.Ratio
	dst.OK = src.OK
	// Title, Private (no getter option), Keep, Count: no match => unchanged
}

func ref_PtrPtr(src *Src) *Dst { dst := &Dst{}; refDefault(dst, src); return dst }
func ref_ValVal(src Src) Dst   { var dst Dst; refDefault(&dst, &src); return dst }
func ref_ArgPtr(dst *Dst, src *Src) { refDefault(dst, src) }
func ref_ArgVal(dst *Dst, src Src)  { refDefault(dst, &src) }

// Strict: no conversions at all: only identically typed / assignable fields.
func ref_Strict(src *Src) *Dst {
	dst := &Dst{}
	dst.Name = src.Name
	dst.Ptr = src.Ptr
	dst.Home.City = src.Home.City
	dst.Work = src.Work
	dst.Geo = src.Geo
	dst.Ratio = src.Ratio
	dst.OK = src.OK
	return dst
}

// Explicit: :getter, :skip (exact and regexp), :map, :literal, :conv; explicit notations beat the name match.
func ref_Explicit(src *Src) *Dst {
	dst := &Dst{}
	dst.ID = int64(src.ID)
	dst.Name = Upper(src.Name)
	dst.Status = src.Status.String()
	dst.Age = int64(src.Age)
	dst.Code = src.Extra
	dst.Ptr = src.Ptr
	dst.Home.City = src.Home.City
	dst.Home.Zip = int64(src.Home.Zip)
	dst.Work = src.Work
	dst.Geo = src.Geo
	// Ratio skipped by /^Rat/
	dst.OK = src.OK
	dst.Title = src.Title()
	dst.Private = src.Private()
	// Keep skipped
	dst.Count = 42
	return dst
}

// WithArgs: $2 is the first additional argument, $3 the second; PtrLen takes &src.Extra.
func ref_WithArgs(src *Src, keep string, count int) *Dst {
	dst := &Dst{}
	refDefault(dst, src)
	dst.Age = int64(PtrLen(&src.Extra))
	dst.Keep = keep
	dst.Count = count
	return dst
}

func (s *Src) ref_Recv() *Dst { dst := &Dst{}; refDefault(dst, s); return dst }

// Rev: with :reverse the receiver is the destination of the copy and the argument its source
// (README ":reverse": "func (u *User) FromStorage(src *storage.User) { u.ID = int(src.ID) ... }").
func (d *Dst) ref_Rev(src *Src) { refDefault(d, src) }

// Paths: :map with a nested source path and a getter, :skip on a nested destination path.
func ref_Paths(src *Src) *Dst {
	dst := &Dst{}
	dst.ID = int64(src.ID)
	dst.Name = src.Home.City
	dst.Status = src.Status.String()
	dst.Age = int64(src.Age)
	dst.Code = string(src.Code)
	dst.Ptr = src.Ptr
	dst.Home.City = src.Home.City
	// Home.Zip skipped
	dst.Work = src.Work
	dst.Geo = src.Geo
	dst.Ratio = src.Ratio
	dst.OK = src.OK
	dst.Title = src.Title()
	return dst
}

// ViaPtr: a source path through a nil pointer has no value to copy: the destination field keeps
// its previous value (and nothing panics).
func ref_ViaPtr(src *Src) *Dst {
	dst := &Dst{}
	dst.ID = int64(src.ID)
	if src.Work != nil {
		dst.Name = src.Work.City
	}
	dst.Status = src.Status.String()
	dst.Age = int64(src.Age)
	if src.Work != nil {
		dst.Code = Upper(src.Work.City)
	}
	dst.Ptr = src.Ptr
	dst.Home.City = src.Home.City
	dst.Home.Zip = int64(src.Home.Zip)
	dst.Work = src.Work
	dst.Geo = src.Geo
	dst.Ratio = src.Ratio
	dst.OK = src.OK
	if src.Geo != nil {
		dst.Count = src.Geo.Lat
	}
	return dst
}

func ref_ArgMapPtr(dst *Dst, src *Src) {
	dst.ID = int64(src.ID)
	dst.Name = src.Name
	dst.Status = src.Status.String()
	dst.Age = int64(src.Age)
	dst.Code = string(src.Code)
	dst.Ptr = src.Ptr
	dst.Home.City = src.Home.City
	dst.Home.Zip = int64(src.Home.Zip)
	dst.Home.Geo = src.Geo // the pointer itself is the value: nil overwrites
	dst.Work = src.Work
	dst.Geo = src.Geo
	dst.Ratio = src.Ratio
	dst.OK = src.OK
	if src.Work != nil {
		dst.Keep = src.Work.City
	}
}
