//go:build convergen

package basic

// :typecast
// :stringer
type Convergen interface {
	// PtrPtr: pointer source, pointer destination, return style.
	PtrPtr(*Src) *Dst
	// ValVal: value source, value destination.
	ValVal(Src) Dst
	// :style arg
	ArgPtr(*Src) *Dst
	// :style arg
	ArgVal(Src) Dst
	// :typecast:off
	// :stringer:off
	Strict(*Src) *Dst
	// :getter
	// :skip Keep
	// :skip /^Rat/
	// :map Extra Code
	// :literal Count 42
	// :conv Upper Name
	Explicit(*Src) *Dst
	// :map $2 Keep
	// :map $3 Count
	// :conv PtrLen Extra Age
	WithArgs(src *Src, keep string, count int) *Dst
	// :recv s
	Recv(*Src) *Dst
	// :style arg
	// :recv d
	// :reverse
	Rev(*Dst) *Src
	// :map Home.City Name
	// :map Title() Title
	// :skip Home.Zip
	Paths(*Src) *Dst
	// ArgMapPtr: a pointer-typed source leaf mapped explicitly into a destination that already
	// holds a value (arg style): a nil source pointer must overwrite it like any other value.
	// :style arg
	// :map Geo Home.Geo
	// :map Work.City Keep
	ArgMapPtr(*Src) *Dst
	// ViaPtr: explicit source paths through pointers that may be nil.
	// :map Work.City Name
	// :conv Upper Work.City Code
	// :map Geo.Lat Count
	ViaPtr(*Src) *Dst
}
