// Package basic: corpus case for plain copies, conversions, nested structs, explicit notations,
// styles, receiver, reverse and additional arguments.
package basic

import "strconv"

// Trace records calls of user functions (getters, String methods, converters, hooks).
var Trace []string

func note(s string) { Trace = append(Trace, s) }

type Status int

func (s Status) String() string { note("Status.String"); return "S" + strconv.Itoa(int(s)) }

type Code string

type Addr struct {
	City string
	Zip  int32
}

type AddrX struct {
	City string
	Zip  int64
	Geo  *Geo
}

type Geo struct{ Lat, Lon int }

type Src struct {
	ID      int
	Name    string
	Status  Status
	Age     int32
	Code    Code
	Ptr     *int
	Home    Addr
	Work    *Addr
	Geo     *Geo
	Ratio   float64
	OK      bool
	Extra   string
	private string
}

func (s *Src) Title() string   { note("Src.Title"); return "T:" + s.Name }
func (s *Src) Private() string { note("Src.Private"); return s.private }

type Dst struct {
	ID      int64
	Name    string
	Status  string
	Age     int64
	Code    string
	Ptr     *int
	Home    AddrX
	Work    *Addr
	Geo     *Geo
	Ratio   float64
	OK      bool
	Title   string
	Private string
	Keep    string
	Count   int
}

// Upper is a converter.
func Upper(s string) string { note("Upper(" + s + ")"); return "U:" + s }

// PtrLen takes a pointer argument.
func PtrLen(s *string) int { note("PtrLen"); return len(*s) }
