//go:build verif

package zz_verif

// Mode T harnesses for interface selection (C17) and notation scoping (C09).

import (
	"strings"

	bmodel "github.com/reedom/convergen/pkg/builder/model"
	gmodel "github.com/reedom/convergen/pkg/generator/model"
	"github.com/reedom/convergen/pkg/option"
	"github.com/reedom/convergen/pkg/parser"
	"github.com/reedom/convergen/pkg/vrt"
)

// isMarker: the documented spelling of the converter marker is a doc line `// :convergen`.
func isMarker(text string) bool {
	for _, line := range strings.Split(text, "\n") {
		if line == ":convergen" || strings.HasPrefix(line, ":convergen ") {
			return true
		}
	}
	return false
}

func parseSkeleton(name string) (*parser.Parser, []*bmodel.MethodsInfo, error) {
	src := vrt.SkeletonPath(name)
	p, err := parser.NewParser(src, src[:len(src)-3]+".gen.go")
	if err != nil {
		return nil, nil, err
	}
	infos, err := p.Parse()
	return p, infos, err
}

func methodSig(m *bmodel.MethodEntry) string {
	return m.Name() + "(" + m.SrcVar().Type().String() + ")"
}

// C17Selection: exactly the interfaces of the input file that are named Convergen or carry a
// :convergen doc line are converted, in scope (name) order, each with its full method set; marked
// interfaces of sibling files and marked non-interfaces are ignored.
func C17Selection() {
	p, infos, err := parseSkeleton("sel")
	vrt.Assert("accepted", err == nil)
	if err != nil {
		return
	}
	var want []string
	if isMarker(vrt.SlotText("sel", "S2")) {
		want = append(want, "Conv(*verifsk/sel.SrcA) Other(*verifsk/sel.SrcA)")
	}
	if isMarker(vrt.SlotText("sel", "S4")) {
		// (incl. the method Beta has by embedding an interface declared in a sibling file)
		want = append(want, "Bee(*verifsk/sel.SrcB) FromSibling(*verifsk/sel.SrcB)")
	}
	vrt.SlotText("sel", "S3") // Convergen is selected by its name whatever its doc says
	want = append(want, "Main(*verifsk/sel.SrcC)")
	if isMarker(vrt.SlotText("sel", "S5")) {
		// an interface declared as `type Delta = interface{...}` is an interface declaration of the file
		want = append(want, "Dee(*verifsk/sel.SrcA)")
	}
	if isMarker(vrt.SlotText("sel", "S1")) {
		// (incl. the methods Gamma has by embedding an unmarked interface of the same file)
		want = append(want, "Conv(*verifsk/sel.SrcG) MixA(*verifsk/sel.SrcA) MixB(*verifsk/sel.SrcA)")
	}
	var got []string
	markers := map[string]bool{}
	for _, info := range infos {
		sigs := ""
		for i, m := range info.Methods {
			if i > 0 {
				sigs += " "
			}
			sigs += methodSig(m)
		}
		got = append(got, sigs)
		for _, m := range info.Methods {
			// the package comment is no method's doc comment - also not for a method the interface
			// has by embedding an interface of a sibling file, whose own comments are out of sight
			if m.Name() == "FromSibling" || m.Name() == "Bee" {
				vrt.AssertMsg("package-comment-is-no-method-doc", m.DocComment == nil || len(m.DocComment.List) == 0, m.Name())
				vrt.AssertMsg("package-comment-notations-reach-no-method", !m.Opts.ShouldSkip("ID") && !m.Opts.Typecast, m.Name())
			}
		}
		for _, m := range info.Methods {
			// a method inherited from an unmarked interface of the SAME file comes with the doc comment
			// and the notations it is declared with; the notations on that interface's own doc
			// comment are not defaults of the converter interface that embeds it
			if m.Name() == "MixA" || m.Name() == "MixB" {
				gammaCast := strings.Contains(vrt.SlotText("sel", "S1"), ":typecast")
				vrt.AssertMsg("embedded-interface-notations-are-no-defaults", m.Opts.Typecast == gammaCast && !m.Opts.ShouldSkip("V"), m.Name())
			}
			if m.Name() == "MixA" {
				vrt.AssertMsg("inherited-method-keeps-its-doc-and-notations",
					m.Opts.ShouldSkip("W") && m.DocComment != nil && len(m.DocComment.List) == 1 && strings.Contains(m.DocComment.List[0].Text, "MixA is converted"), m.Name())
			}
			if m.Name() == "MixB" {
				vrt.AssertMsg("inherited-method-without-doc-has-none", !m.Opts.ShouldSkip("W") && (m.DocComment == nil || len(m.DocComment.List) == 0), m.Name())
			}
		}
		vrt.Assert("marker-unique", !markers[info.Marker] && info.Marker != "")
		markers[info.Marker] = true
	}
	vrt.Observe("selected", strings.Join(got, " | "))
	vrt.Assert("selected-interfaces-and-methods", strings.Join(got, " | ") == strings.Join(want, " | "))
	// one function per method and nothing else
	b := p.CreateBuilder()
	for _, info := range infos {
		fns, err := b.CreateFunctions(info.Methods)
		vrt.Assert("functions-created", err == nil && len(fns) == len(info.Methods))
		for i := range fns {
			vrt.Assert("function-per-method-in-order", fns[i].Name == info.Methods[i].Name())
		}
	}
	vrt.Reach("end")
}

// C17NoInterface: a file whose interfaces are neither named Convergen nor marked is rejected,
// even when a sibling file declares a marked interface.
func C17NoInterface() {
	_, infos, err := parseSkeleton("nointf")
	vrt.SlotText("nointf", "S1")
	vrt.Assert("rejected", err != nil && len(infos) == 0)
	vrt.Reach("end")
}

// toggle folding per the README: interface notations are the defaults, method notations override.
func foldToggle(cur bool, texts ...string) bool {
	f := vrt.ToggleFamilies[vrt.SlotFamily()]
	for _, t := range texts {
		for _, line := range strings.Split(t, "\n") {
			if line == f[0] {
				cur = true
			} else if line == f[1] {
				cur = false
			}
		}
	}
	return cur
}

// toggleOf reads the effective value of toggle family k from the options (true = the ON spelling).
func toggleOf(o option.Options, k int) bool {
	switch k {
	case 0:
		return o.Typecast
	case 1:
		return o.Getter
	case 2:
		return o.Stringer
	case 3:
		return !o.ExactCase
	case 4:
		return o.Style == gmodel.DstVarArg
	default:
		return o.Rule == gmodel.MatchRuleNone
	}
}

func listShape(o option.Options) string {
	s := ""
	// skip patterns are observed the way the builder uses them: under the method's case rule
	for _, f := range []string{"ID", "Status", "Secret"} {
		if o.ShouldSkip(f) {
			s += "skip:" + f + " "
		}
	}
	for _, m := range o.NameMapper {
		s += "map:" + m.Src().ExprAt(0) + ">" + m.Dst().ExprAt(0) + " "
	}
	for _, c := range o.Converters {
		s += "conv:" + c.Converter() + ":" + c.Src().ExprAt(0) + ">" + c.Dst().ExprAt(0) + " "
	}
	for _, l := range o.Literals {
		s += "lit:" + l.Dst().ExprAt(0) + "=" + l.Literal() + " "
	}
	return s
}

func wantLists(caseOff bool, texts ...string) string {
	skip := map[string]bool{}
	maps, convs, lits := "", "", ""
	for _, t := range texts {
		for _, line := range strings.Split(t, "\n") {
			f := strings.Fields(line)
			if len(f) == 0 {
				continue
			}
			switch f[0] {
			case ":skip":
				for _, field := range []string{"ID", "Status", "Secret"} {
					if f[1] == field || (caseOff && strings.EqualFold(f[1], field)) {
						skip[field] = true
					}
				}
			case ":map":
				maps += "map:" + f[1] + ">" + f[2] + " "
			case ":conv":
				convs += "conv:" + f[1] + ":" + f[2] + ">" + f[3] + " "
			case ":literal":
				lits += "lit:" + f[1] + "=" + f[2] + " "
			}
		}
	}
	skips := ""
	for _, field := range []string{"ID", "Status", "Secret"} {
		if skip[field] {
			skips += "skip:" + field + " "
		}
	}
	return skips + maps + convs + lits
}

// C09Scoping: an interface-level toggle is the default of every method of that interface, a
// method-level notation overrides it for that method only; notations of one method or interface
// never influence another (toggles of all six families and the per-method :skip/:map/:conv/:literal
// lists, incl. the append-aliasing of the option slices across by-value copies).
func C09Scoping() {
	_, infos, err := parseSkeleton("scope")
	vrt.Assert("accepted", err == nil)
	if err != nil {
		return
	}
	k := vrt.SlotFamily()
	i1, i2, j1 := vrt.SlotText("scope", "I1"), vrt.SlotText("scope", "I2"), vrt.SlotText("scope", "J1")
	a1, a2, b1, c1 := vrt.SlotText("scope", "A1"), vrt.SlotText("scope", "A2"), vrt.SlotText("scope", "B1"), vrt.SlotText("scope", "C1")
	def := option.NewOptions()
	want := map[string]bool{
		"Aa": foldToggle(toggleOf(def, k), i1, i2, a1, a2),
		"Bb": foldToggle(toggleOf(def, k), i1, i2, b1),
		"Cc": foldToggle(toggleOf(def, k), j1, c1),
		"Dd": foldToggle(toggleOf(def, k), j1),
	}
	caseOff := func(name string) bool { return k == 3 && want[name] }
	lists := map[string]string{"Aa": wantLists(caseOff("Aa"), a1, a2), "Bb": wantLists(caseOff("Bb"), b1), "Cc": wantLists(caseOff("Cc"), c1), "Dd": ""}
	n := 0
	for _, info := range infos {
		for _, m := range info.Methods {
			n++
			name := m.Name()
			vrt.AssertMsg("effective-toggle", toggleOf(m.Opts, k) == want[name], name)
			for other := 0; other < len(vrt.ToggleFamilies); other++ {
				if other != k {
					vrt.AssertMsg("other-toggles-at-default", toggleOf(m.Opts, other) == toggleOf(def, other), name)
				}
			}
			vrt.Observe("lists."+name, listShape(m.Opts))
			vrt.AssertMsg("per-method-lists", listShape(m.Opts) == lists[name], name+": "+listShape(m.Opts)+" want "+lists[name])
		}
	}
	vrt.Assert("all-methods-present", n == 4)
	vrt.Reach("end")
}

// C09CrossMethod: several methods of one run copy into the same destination paths. What a method's
// function does with a nested struct depends on ITS notations alone: without a notation on a member
// the struct (same type on both sides) is copied as a whole, with one it is copied member by member
// and the notation applied - whatever the methods built before it (in name order, across converter
// interfaces) were told.
func C09CrossMethod() {
	var texts []string
	var err error
	stderr := vrt.CaptureStderr(func() { texts, err = frontHalf("cross") })
	notes := []string{vrt.SlotText("cross", "A1"), vrt.SlotText("cross", "B1"), vrt.SlotText("cross", "C1")}
	vrt.AssertMsg("accepted", err == nil && len(texts) == 3, stderr)
	if err != nil || len(texts) != 3 {
		return
	}
	for i, name := range []string{"Alpha", "Beta", "Gamma"} {
		t := texts[i]
		vrt.AssertMsg("functions-in-name-order", strings.Contains(t, "func "+name+"("), t)
		whole := strings.Contains(t, "dst.Inner = src.Inner")
		vrt.AssertMsg("nested-struct-copied-whole-iff-the-method-has-no-notation-on-a-member", whole == (notes[i] == ""), name+" ["+notes[i]+"]\n"+t)
		switch notes[i] {
		case ":skip Inner.Secret":
			vrt.AssertMsg("own-notation-applied", strings.Contains(t, "// skip: dst.Inner.Secret") && !strings.Contains(t, "dst.Inner.Secret =") && strings.Contains(t, "dst.Inner.Public = src.Inner.Public"), t)
		case ":skip Inner.Public":
			vrt.AssertMsg("own-notation-applied", strings.Contains(t, "// skip: dst.Inner.Public") && !strings.Contains(t, "dst.Inner.Public =") && strings.Contains(t, "dst.Inner.Secret = src.Inner.Secret"), t)
		case ":literal Inner.Secret \"x\"":
			vrt.AssertMsg("own-notation-applied", strings.Contains(t, "dst.Inner.Secret = \"x\"") && strings.Contains(t, "dst.Inner.Public = src.Inner.Public"), t)
		case ":map Name Inner.Secret":
			vrt.AssertMsg("own-notation-applied", strings.Contains(t, "dst.Inner.Secret = src.Name") && strings.Contains(t, "dst.Inner.Public = src.Inner.Public"), t)
		case ":map Name Inner.Public":
			vrt.AssertMsg("own-notation-applied", strings.Contains(t, "dst.Inner.Public = src.Name") && strings.Contains(t, "dst.Inner.Secret = src.Inner.Secret"), t)
		}
	}
	vrt.Reach("end")
}
