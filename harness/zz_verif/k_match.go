//go:build verif

package zz_verif

// Mode K harnesses for the name and pattern matchers (C19).

import (
	"strings"

	"github.com/reedom/convergen/pkg/option"
	"github.com/reedom/convergen/pkg/vrt"
)

// c19Patterns: plain patterns and /regexp/ patterns (classes, negated classes, Perl classes,
// Unicode classes, anchors, alternation, repetition, flags, escaped metacharacters, invalid ones).
var c19Patterns = []string{
	// plain
	"a", "A", "Ab", "aB", ".", "a.b", "A.B", "/", "//x", "\\", "(", "a(", "[a]", "a*", "^a$", "$", "",
	"ſ", "s", "S", "K", "k", "K", "Σ", "σ", "ς", "İ", "ı", "i", "I", "é", "É", "ß", "Name", "User.Name",
	// regexps
	"/a/", "/A/", "/^a$/", "/^A/", "/a$/", "/./", "/^.$/", "/[a-c]/", "/[^a-c]/", "/^[^a-c]*$/", "/[A-C]x/",
	`/\d/`, `/\D/`, `/^\D*$/`, `/\s/`, `/\S/`, `/^\S+$/`, `/\w/`, `/\W/`, `/^\W$/`, `/\pL/`, `/\PL/`, `/^\PL*$/`, `/\p{Lu}/`, `/\x41/`, `/\x{17f}/`,
	"/a|B/", "/(?:a|B)$/", "/(a|B)c/", "/(?i)a/", "/(?-i)A/", "/(?i:a)B/", "/(?s)a.b/", "/a*/", "/^a*$/", "/a+b?/", "/^a{2}$/", "/a{1,2}b/",
	`/\./`, `/\(/`, `/\//`, `/a\.b/`, `/^$/`, `/\bA\b/`, `/\BA/`, "/ſ/", "/K/", "/[k]/", "/[s]/", "/[σ]/", "/^[^k]$/", "/İ/", "/Name$/", `/^User\..*Name$/`,
	// invalid regexps (must be rejected, never crash)
	"/[/", "/(/", `/\/`, "/a**/", `/\pX/`, "/(?z)a/", "/a{2,1}/",
}

// refSkipMatch is the documented meaning of a :skip pattern (README ":skip", property C19):
// a plain pattern matches iff equal, or equal under Unicode case folding when the case rule is
// off; /re/ matches iff the RE2 expression finds a match, case-insensitively when the rule is off.
func refSkipMatch(pattern, path string, exactCase bool) bool {
	if strings.HasPrefix(pattern, "/") && strings.HasSuffix(pattern, "/") && len(pattern) >= 2 {
		expr := pattern[1 : len(pattern)-1]
		if !exactCase {
			expr = "(?i)" + expr
		}
		return vrt.RefRegexpMatch(expr, path)
	}
	if exactCase {
		return pattern == path
	}
	return vrt.RefFoldEq(pattern, path)
}

func refPatternValid(pattern string) bool {
	if strings.HasPrefix(pattern, "/") && strings.HasSuffix(pattern, "/") && len(pattern) >= 2 {
		return vrt.RefRegexpValid(pattern[1 : len(pattern)-1])
	}
	return true
}

func patternMatcherHarness(maxSubj, maxHist int) {
	p := c19Patterns[vrt.Choose("pattern", len(c19Patterns))]
	ctorExact := vrt.Bool("ctorExact")
	m, err := option.NewPatternMatcher(p, ctorExact)
	vrt.Assert("accepted-iff-valid", (err == nil) == refPatternValid(p))
	if err != nil {
		vrt.Reach("rejected")
		return
	}
	// query history on the same matcher
	nq := vrt.Choose("history", maxHist+1)
	for i := 0; i < nq; i++ {
		m.Match(vrt.Runes("h"+vrt.ArgName(i), 1), vrt.Bool("hExact"+vrt.ArgName(i)))
	}
	subj := vrt.Runes("subj", maxSubj)
	exact := vrt.Bool("exact")
	got := m.Match(subj, exact)
	vrt.Assert("match-meaning", got == refSkipMatch(p, subj, exact))
	vrt.Reach("end")
}

// C19PatternMatcher: PatternMatcher.Match agrees with the documented meaning for every catalogue
// pattern, every subject of <= 3 code points of Sigma, both case rules at construction and at
// query time, after every history of <= 2 earlier queries; never panics.
func C19PatternMatcher()     { patternMatcherHarness(3, 2) }
func C19PatternMatcherDeep() { patternMatcherHarness(5, 3) }

// C19ShouldSkip: Options.ShouldSkip is the disjunction of its patterns under the method's rule.
func C19ShouldSkip() {
	p1 := c19Patterns[vrt.Choose("pattern1", len(c19Patterns))]
	p2 := []string{"a", "/A/", "ſ"}[vrt.Choose("pattern2", 3)]
	vrt.Assume(refPatternValid(p1))
	opts := option.NewOptions()
	opts.ExactCase = vrt.Bool("exact")
	// the matchers were constructed under the other rule (the notation preceded a later :case)
	m1, _ := option.NewPatternMatcher(p1, !opts.ExactCase)
	m2, _ := option.NewPatternMatcher(p2, opts.ExactCase)
	opts.SkipFields = append(opts.SkipFields, m1, m2)
	subj := vrt.Runes("subj", 2)
	got := opts.ShouldSkip(subj)
	vrt.Assert("skip-is-disjunction", got == vrt.Or(refSkipMatch(p1, subj, opts.ExactCase), refSkipMatch(p2, subj, opts.ExactCase)))
	vrt.Reach("end")
}

// C19IdentMatchers: IdentMatcher/NameMatcher/FieldConverter/LiteralSetter/CompareFieldName compare
// by equality resp. Unicode case folding; :map/:conv/:literal destination matching is always exact
// when asked with the exact rule; path splitting at "." is lossless.
func C19IdentMatchers() {
	pat := vrt.Runes("pat", 3)
	id := vrt.Runes("id", 3)
	exact := vrt.Bool("exact")
	want := pat == id
	if !exact {
		want = vrt.RefFoldEq(pat, id)
	}
	im := option.NewIdentMatcher(pat)
	vrt.Assert("ident-match", im.Match(id, exact) == want)
	joined := ""
	for i := 0; i < im.PathLen(); i++ {
		if i > 0 {
			joined += "."
		}
		joined += im.ExprAt(i)
	}
	vrt.Assert("path-split-lossless", joined == pat)

	opts := option.NewOptions()
	opts.ExactCase = exact
	vrt.Assert("compare-field-name", opts.CompareFieldName(pat, id) == want)

	nm := option.NewNameMatcher(pat, "", 0)
	vrt.Assert("name-matcher-default-dst", nm.Match(id, id, exact) == want)
	other := vrt.Runes("other", 2)
	nm2 := option.NewNameMatcher(pat, other, 0)
	vrt.Assume(other != "")
	wantOther := other == id
	if !exact {
		wantOther = vrt.RefFoldEq(other, id)
	}
	vrt.Assert("name-matcher", nm2.Match(id, id, exact) == (want && wantOther))
	vrt.Assert("dst-matcher-exact", nm2.Dst().Match(id, true) == (other == id))

	fc := option.NewFieldConverter("conv", pat, other, 0)
	vrt.Assert("converter-always-exact", fc.Match(id, id) == (pat == id && other == id))
	ls := option.NewLiteralSetter(pat, "lit", 0)
	vrt.Assert("literal-match", ls.Match(id, exact) == want)
	vrt.Assert("literal-dst-exact", ls.Dst().Match(id, true) == (pat == id))
	vrt.Reach("end")
}
