//go:build verif

package zz_verif

// harnesses lists every harness by name for native replay.
var harnesses = map[string]func(){
	"C08Signature":    C08Signature,
	"C10HookPre":      C10HookPre,
	"C10HookPost":     C10HookPost,
	"C10HookBoth":     C10HookBoth,
	"C10NoHook":       C10NoHook,
	"C07ErrFlow":      C07ErrFlow,
	"C07ErrFlowDeep":  C07ErrFlowDeep,
	"C18ParseArgs":    C18ParseArgs,
	"C18NoInput":      C18NoInput,
	"C18Generate":     C18Generate,
	"C15Run":          C15Run,
	"C03MarkerLayout": C03MarkerLayout,
	"C12LoaderHook":   C12LoaderHook,
	"T0Pipeline":      T0Pipeline,
	"C14BadNotation":  C14BadNotation,
	"C04Matrix":       C04Matrix,
	"C06Shapes":       C06Shapes,
	"C05SameName":     C05SameName,
	"C04Names":        C04Names,
	"C08CreateFunction": C08CreateFunction,
	"C14OutIsInput":   C14OutIsInput,
	"C17Selection":    C17Selection,
	"C17NoInterface":  C17NoInterface,
	"C09Scoping":      C09Scoping,
	"C11MarkerSubstitution": C11MarkerSubstitution,
	"C11ExtractComments":    C11ExtractComments,
	"C13ImportTable":        C13ImportTable,
	"C13ImportTable3":       C13ImportTable3,
	"C19PatternMatcher":     C19PatternMatcher,
	"C19PatternMatcherDeep": C19PatternMatcherDeep,
	"C19ShouldSkip":         C19ShouldSkip,
	"C19IdentMatchers":      C19IdentMatchers,
}
