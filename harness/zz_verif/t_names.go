//go:build verif

package zz_verif

// Mode T harness for candidate selection (C04): name comparison under the case rule, getters
// before fields, accessibility across packages, getter eligibility.

import (
	"go/ast"
	"go/types"
	"strings"

	"github.com/reedom/convergen/pkg/generator"
	gmodel "github.com/reedom/convergen/pkg/generator/model"
	"github.com/reedom/convergen/pkg/vrt"
)

// ladder is refMatch without the rule (used for getter results as well).
func ladder(ti, tj types.Type, stringer, typecast bool) string {
	k := refMatch(ti, tj, true, stringer, typecast)
	if k == "stringer" {
		return k
	}
	// String() declared on the pointer receiver is callable on pointers and on addressable
	// operands; whether the tool uses it there is not pinned by the property (it may report no match)
	if stringer && k != "plain" && types.AssignableTo(types.Typ[types.String], tj) && !hasStringMethod(ti) {
		pt := ti
		if _, isPtr := ti.(*types.Pointer); !isPtr {
			pt = types.NewPointer(ti)
		}
		if sel := types.NewMethodSet(pt).Lookup(nil, "String"); sel != nil {
			return k + "|stringer"
		}
	}
	return k
}

func nameEq(a, b string, exact bool) bool {
	if exact {
		return a == b
	}
	return strings.EqualFold(a, b)
}

// refCandidate: reference for "which candidate of the source supplies the destination field".
// Returns the acceptable outcome set and the source expression.
func refCandidate(dstField *types.Var, srcT types.Type, local string, exact, getter, ruleName, stringer, typecast bool) (string, string) {
	base := srcT
	if p, ok := base.(*types.Pointer); ok {
		base = p.Elem()
	}
	named, _ := base.(*types.Named)
	imported := named != nil && named.Obj().Pkg() != nil && named.Obj().Pkg().Path() != local
	// getters are matched by NAME too: under :match none nothing is matched by name at all
	// (README ":match": "only processes fields or getters that have been explicitly specified")
	if getter && ruleName && named != nil {
		for i := 0; i < named.NumMethods(); i++ {
			f := named.Method(i)
			sig := f.Type().(*types.Signature)
			if sig.Params().Len() != 0 || sig.Results().Len() != 1 || sig.Results().At(0).Type().String() == "error" {
				continue
			}
			if !nameEq(dstField.Name(), f.Name(), exact) || (imported && !ast.IsExported(f.Name())) {
				continue
			}
			if k := ladder(sig.Results().At(0).Type(), dstField.Type(), stringer, typecast); !strings.HasPrefix(k, "nomatch") && k != "nested" {
				return k, "src." + f.Name() + "()"
			}
		}
	}
	if ruleName {
		st := base.Underlying().(*types.Struct)
		for i := 0; i < st.NumFields(); i++ {
			f := st.Field(i)
			if !nameEq(dstField.Name(), f.Name(), exact) || (imported && !ast.IsExported(f.Name())) {
				continue
			}
			// "the source struct OFFERS a candidate ... whose type is assignable": under
			// :case:off several fields may bear the name; one that does not fit does not
			// hide a later one that does
			if k := ladder(f.Type(), dstField.Type(), stringer, typecast); !strings.HasPrefix(k, "nomatch") {
				return k, "src." + f.Name()
			}
		}
	}
	return "nomatch", ""
}

func C04Names() {
	const local = "verifsk/names"
	p, infos, err := parseSkeleton("names")
	vrt.Assert("accepted", err == nil && len(infos) == 1)
	if err != nil {
		return
	}
	m := infos[0].Methods[vrt.Choose("method", len(infos[0].Methods))]
	exact, getter, ruleName := vrt.Bool("exactCase"), vrt.Bool("getter"), vrt.Bool("ruleName")
	stringer, typecast := vrt.Bool("stringer"), vrt.Bool("typecast")
	m.Opts.ExactCase, m.Opts.Getter, m.Opts.Stringer, m.Opts.Typecast = exact, getter, stringer, typecast
	if !ruleName {
		m.Opts.Rule = gmodel.MatchRuleNone
	}
	fn, err := p.CreateBuilder().CreateFunction(m)
	vrt.Assert("function-created", err == nil)
	if err != nil {
		return
	}
	dstT := m.DstVar().Type()
	if pt, ok := dstT.(*types.Pointer); ok {
		dstT = pt.Elem()
	}
	dst := dstT.Underlying().(*types.Struct)
	byLHS := map[string]gmodel.Assignment{}
	for _, a := range fn.Assignments {
		byLHS[lhsOf(a)] = a
	}
	for i := 0; i < dst.NumFields(); i++ {
		f := dst.Field(i)
		want, rhs := refCandidate(f, m.SrcVar().Type(), local, exact, getter, ruleName, stringer, typecast)
		a, ok := byLHS["dst."+f.Name()]
		got := "missing"
		if ok {
			got = classify(a, "dst."+f.Name(), rhs)
		}
		vrt.AssertMsg("candidate-and-conversion", strings.Contains("|"+want+"|", "|"+got+"|"), m.Name()+"."+f.Name()+": got "+got+", want "+want+" from "+rhs)
	}
	text := generator.NewGenerator(gmodel.Code{}).FuncToString(fn)
	vrt.Observe("func", text)
	v := vrt.TypeCheckFuncs("names", text)
	vrt.AssertMsg("emitted-function-type-checks", v == "", v)
	vrt.Reach("end")
}
