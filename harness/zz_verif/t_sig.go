//go:build verif

package zz_verif

// Mode T harness for operand extraction (C08): real CreateFunction on the signature catalogue with
// style / reverse / receiver symbolic; expectations are computed from go/types facts.

import (
	bmodel "github.com/reedom/convergen/pkg/builder/model"
	"go/types"
	"strconv"

	"github.com/reedom/convergen/pkg/generator"
	gmodel "github.com/reedom/convergen/pkg/generator/model"
	"github.com/reedom/convergen/pkg/vrt"
)

func derefT(t types.Type) (types.Type, bool) {
	if p, ok := t.(*types.Pointer); ok {
		return p.Elem(), true
	}
	return t, false
}

// refTypeExpr: package-qualified type expression as the generated file must spell it.
func refTypeExpr(t types.Type, local string) string {
	switch tt := t.(type) {
	case *types.Pointer:
		return "*" + refTypeExpr(tt.Elem(), local)
	case *types.Named:
		if tt.Obj().Pkg() == nil || tt.Obj().Pkg().Path() == local {
			return tt.Obj().Name()
		}
		return tt.Obj().Pkg().Name() + "." + tt.Obj().Name()
	}
	return t.String()
}

func isErr(t types.Type) bool { return t.String() == "error" }

func C08CreateFunction() {
	const local = "verifsk/sig"
	p, infos, err := parseSkeleton("sig")
	vrt.Assert("accepted", err == nil && len(infos) == 1)
	if err != nil {
		return
	}
	methods := infos[0].Methods
	m := methods[vrt.Choose("method", len(methods))]
	styleArg, reverse, recv := vrt.Bool("styleArg"), vrt.Bool("reverse"), vrt.Bool("recv")
	// :reverse without :style arg is rejected when the notations are parsed (C14BadNotation)
	vrt.Assume(vrt.Implies(reverse, styleArg))
	if styleArg {
		m.Opts.Style = gmodel.DstVarArg
	}
	m.Opts.Reverse = reverse
	if recv {
		m.Opts.Receiver = "r"
	}
	fn, err := p.CreateBuilder().CreateFunction(m)

	sig := m.Method.Type().(*types.Signature)
	extra := sig.Params().Len() - 1
	src, dst := sig.Params().At(0), sig.Results().At(0)
	srcElem, srcPtr := derefT(src.Type())
	dstElem, dstPtr := derefT(dst.Type())
	srcImported := false
	if n, ok := srcElem.(*types.Named); ok && n.Obj().Pkg() != nil && n.Obj().Pkg().Path() != local {
		srcImported = true
	}
	wantReject := (reverse && extra > 0) || (recv && srcImported)
	vrt.Assert("rejected-iff-documented-illegal", (err != nil) == wantReject)
	// an illegal method fails the run whatever comes after it: it is never left out while the
	// functions of the other methods are delivered (one function per method, or none at all)
	rest := methods[len(methods)-1]
	fns, errAll := p.CreateBuilder().CreateFunctions([]*bmodel.MethodEntry{m, rest})
	vrt.Assert("an-illegal-method-fails-the-run-whatever-follows", (errAll != nil) == wantReject)
	if errAll == nil {
		vrt.Assert("one-function-per-method", len(fns) == 2 && fns[0].Name == m.Method.Name() && fns[1].Name == rest.Method.Name())
	}
	if err != nil {
		vrt.Reach("rejected")
		return
	}
	wantSrcName, wantDstName := src.Name(), dst.Name()
	defSrc, defDst := "src", "dst"
	if reverse {
		defSrc, defDst = "dst", "src"
	}
	if wantSrcName == "" {
		wantSrcName = defSrc
	}
	if wantDstName == "" {
		wantDstName = defDst
	}
	if recv {
		wantSrcName = "r"
	}
	vrt.AssertMsg("name", fn.Name == m.Method.Name(), fn.Name)
	vrt.AssertMsg("src-var", fn.Src.Name == wantSrcName && fn.Src.Pointer == srcPtr && fn.Src.Type == refTypeExpr(srcElem, local), fn.Src.Name+" "+fn.Src.Type)
	vrt.AssertMsg("dst-var", fn.Dst.Name == wantDstName && fn.Dst.Pointer == dstPtr && fn.Dst.Type == refTypeExpr(dstElem, local), fn.Dst.Name+" "+fn.Dst.Type)
	vrt.Assert("receiver", (fn.Receiver == "r") == recv && (recv || fn.Receiver == ""))
	lastRes := sig.Results().At(sig.Results().Len() - 1)
	vrt.Assert("ret-error", fn.RetError == (sig.Results().Len() > 1 && isErr(lastRes.Type())))
	vrt.Assert("style", (fn.DstVarStyle == gmodel.DstVarArg) == styleArg)
	vrt.Assert("extra-arg-count", len(fn.AdditionalArgs) == extra)
	for i := 0; i < extra && i < len(fn.AdditionalArgs); i++ {
		pv := sig.Params().At(i + 1)
		wantName := pv.Name()
		if wantName == "" {
			wantName = "arg" + strconv.Itoa(i)
		}
		elem, isPtr := derefT(pv.Type())
		a := fn.AdditionalArgs[i]
		vrt.AssertMsg("extra-arg", a.Name == wantName && a.Pointer == isPtr && a.Type == refTypeExpr(elem, local), a.Name+" "+a.Type)
	}
	text := generator.NewGenerator(gmodel.Code{}).FuncToString(fn)
	vrt.Observe("func", text)
	v := vrt.TypeCheckFuncs("sig", text)
	vrt.AssertMsg("emitted-function-type-checks", v == "", v)
	vrt.Reach("end")
}
