//go:build verif

package zz_verif

// Mode T harness for C11's doc-comment clauses: function docs are the non-notation lines of the
// method's own doc comment; the package comment and other declarations' comments are untouched.

import (
	"strings"

	gmodel "github.com/reedom/convergen/pkg/generator/model"
	"github.com/reedom/convergen/pkg/parser"
	"github.com/reedom/convergen/pkg/vrt"
)

func docLines(text string) []string {
	var out []string
	for _, l := range strings.Split(text, "\n") {
		if l == "" {
			out = append(out, "// ")
		} else if strings.HasPrefix(l, "//go:generate") {
			// a directive: absent from the output like everywhere else
		} else if !strings.HasPrefix(l, ":") {
			out = append(out, "// "+l)
		}
	}
	if text == "" {
		return nil
	}
	return out // (nil when every line was a directive or notation)
}

func hasNotation(text, n string) bool {
	for _, l := range strings.Split(text, "\n") {
		if l == n {
			return true
		}
	}
	return false
}

func C11DocForwarding() {
	p, infos, err := parseSkeleton("docs")
	vrt.Assert("accepted", err == nil && len(infos) == 1)
	if err != nil {
		return
	}
	i1, m1, m3 := vrt.SlotText("docs", "I1"), vrt.SlotText("docs", "M1"), vrt.SlotText("docs", "M3")
	fns, err := p.CreateBuilder().CreateFunctions(infos[0].Methods)
	vrt.Assert("functions-created", err == nil && len(fns) == 3)
	if err != nil {
		return
	}
	byName := map[string]*gmodel.Function{}
	for _, f := range fns {
		byName[f.Name] = f
	}
	want := map[string][]string{"First": docLines(m1), "Second": nil, "Third": docLines(m3)}
	for name, w := range want {
		got := byName[name].Comments
		vrt.AssertMsg("function-doc-is-the-methods-own-non-notation-lines", strings.Join(got, "\n") == strings.Join(w, "\n"), name+": "+strings.Join(got, " | "))
	}
	// notations apply where they stand and nowhere else (the package comment's ":skip B" is no notation of any method)
	for _, m := range infos[0].Methods {
		own := map[string]string{"First": m1, "Second": "", "Third": m3}[m.Name()]
		vrt.AssertMsg("skip-A-only-where-written", m.Opts.ShouldSkip("A") == hasNotation(own, ":skip A"), m.Name())
		vrt.AssertMsg("skip-B-only-where-written", m.Opts.ShouldSkip("B") == hasNotation(own, ":skip B"), m.Name())
		vrt.AssertMsg("typecast-from-interface-or-method", m.Opts.Typecast == (hasNotation(i1, ":typecast") || hasNotation(own, ":typecast")), m.Name())
	}
	// the package comment and the comments of other declarations are still in the tree
	file := parser.VerifFile(p)
	all := ""
	for _, g := range file.Comments {
		for _, c := range g.List {
			all += c.Text + "\n"
		}
	}
	for _, keep := range []string{"// Package docs carries a package comment that must survive.", "// :skip B", "// A declaration with its own comment before the interfaces.", "// Trailing has a comment as well."} {
		vrt.AssertMsg("other-comments-untouched", strings.Contains(all, keep+"\n"), keep)
	}
	vrt.Assert("package-doc-still-attached", file.Doc != nil && len(file.Doc.List) == 2)
	vrt.Reach("end")
}
