//go:build verif

package zz_verif

// Mode K harness for C03/C11: the marker planting of the real Parser.GenerateBaseCode
// (RemoveMatchComments, the ast.Inspect search for the interface braces, util.InsertComment in the
// order the real code calls it) on a syntax tree whose comment and brace POSITIONS are symbolic.

import (
	"go/ast"
	"go/token"
	"go/types"

	"github.com/reedom/convergen/pkg/parser"
	"github.com/reedom/convergen/pkg/vrt"
)

// maxPosV bounds the symbolic positions.
const maxPosV = 400

func posVar(name string) token.Pos { return token.Pos(vrt.Int(name, 1, maxPosV)) }

// intfDecl builds `type <name> interface { [M(x) ] }` with symbolic brace (and parameter list) positions.
func intfDecl(name string, typePos, lbrace, rbrace token.Pos, withMethod bool) *ast.GenDecl {
	fl := &ast.FieldList{Opening: lbrace, Closing: rbrace}
	if withMethod {
		// the method text is "\nF(*S)*D\n" right after the opening brace
		open, cl := lbrace+3, lbrace+6
		vrt.Assume(lbrace+10 <= rbrace)
		fl.List = []*ast.Field{{
			Names: []*ast.Ident{{NamePos: lbrace + 2, Name: "F"}},
			Type:  &ast.FuncType{Params: &ast.FieldList{Opening: open, Closing: cl}},
		}}
	}
	return &ast.GenDecl{TokPos: typePos, Tok: token.TYPE, Specs: []ast.Spec{
		&ast.TypeSpec{Name: &ast.Ident{Name: name}, Type: &ast.InterfaceType{Methods: fl}},
	}}
}

func commentGroup(name string, at token.Pos, n int) *ast.CommentGroup {
	g := &ast.CommentGroup{}
	p := at
	for i := 0; i < n; i++ {
		g.List = append(g.List, &ast.Comment{Slash: p, Text: "// " + name})
		p += token.Pos(len("// "+name) + 1)
	}
	return g
}

// C03MarkerLayout: for every layout of one or two converter interfaces (arbitrary body lengths incl.
// bodies shorter than a marker, arbitrary gap between them, optional comment groups before, inside
// and after, either processing order) the planted markers end up as groups of their own at exactly
// the interfaces' braces, in position order, and no existing comment is lost, duplicated or reordered.
func C03MarkerLayout() {
	if !vrt.Symbolic() {
		return
	}
	vrt.SetEnv("printer", "fail")
	two := vrt.Bool("twoInterfaces")
	// The layout family is restricted to REALISABLE files (so that every model can be rendered
	// as a setup file for the end-to-end replay): the header needs 40 bytes, "type Convergen
	// interface " 25 bytes (+ a line break) before A's brace, "// :convergen\ntype B interface " 31 bytes (+ a line break) before B's,
	// a comment is followed by a line break.
	const typeText, typeTextB = 26, 32
	header := token.Pos(40)
	file := &ast.File{Name: &ast.Ident{Name: "p"}}
	// optionally the go:generate directive is the package clause's doc comment (directly above
	// `package`): a group that directive removal empties completely
	var directive *ast.CommentGroup
	if vrt.Bool("generateIsPackageDoc") {
		directive = &ast.CommentGroup{List: []*ast.Comment{{Slash: 23, Text: "//go:generate x"}}}
		file.Doc = directive
		file.Comments = append(file.Comments, directive)
		header += 16
	}
	la, ra := posVar("A.lbrace"), posVar("A.rbrace")
	// the `type` keyword of A: directly in front of "Convergen interface {" - or further up, with
	// a comment in the HEAD of the declaration ("type /* c */ Convergen interface {" over lines)
	ta := la - typeText + 1
	var headComment *ast.CommentGroup
	if vrt.Bool("commentInHeadOfA") {
		ta = posVar("A.type")
		at := posVar("head.pos")
		headComment = commentGroup("head", at, 1)
		// "type" (4 bytes + blank), the comment and its line break, then " Convergen interface " (21 bytes) before the brace
		vrt.Assume(ta+5 <= at && headComment.End()+1+21 <= la)
	}
	vrt.Assume(la < ra && header+1 <= ta && ta+typeText-1 <= la)
	methodA := vrt.Bool("A.hasMethod")
	declA := intfDecl("A", ta, la, ra, methodA)
	var original []*ast.Comment
	add := func(g *ast.CommentGroup) {
		file.Comments = append(file.Comments, g)
		original = append(original, g.List...)
	}
	// optional comment group before A (ends before A's brace)
	if vrt.Bool("commentBeforeA") {
		at := posVar("before.pos")
		maxLines := 2
		if vrt.Thorough() {
			maxLines = 4
		}
		n := 1 + vrt.Choose("before.lines", maxLines)
		g := commentGroup("before", at, n)
		vrt.Assume(header <= at && g.End()+2 <= ta)
		add(g)
	}
	if headComment != nil {
		// (a comment inside the declaration that is cut out: it is not expected to survive)
		file.Comments = append(file.Comments, headComment)
	}
	// optional comment group inside A's body
	if vrt.Bool("commentInsideA") {
		at := posVar("inside.pos")
		g := commentGroup("in", at, 1)
		first := la + 1
		if methodA {
			first = la + 10
		}
		vrt.Assume(first <= at && g.End() < ra)
		add(g)
	}
	entries := []parser.VerifEntry{{Obj: types.NewTypeName(token.NoPos, nil, "A", nil), Marker: "MARKERAAAAAAAAAAAAAAA"}}
	vrt.SetEnv("astpath:A", []ast.Node{declA})
	braces := []token.Pos{la, ra}
	if two {
		lb, rb := posVar("B.lbrace"), posVar("B.rbrace")
		vrt.Assume(ra+2+typeTextB <= lb && lb < rb)
		declB := intfDecl("B", lb-16, lb, rb, false) // "type B interface " is 17 bytes
		vrt.SetEnv("astpath:B", []ast.Node{declB})
		eb := parser.VerifEntry{Obj: types.NewTypeName(token.NoPos, nil, "B", nil), Marker: "MARKERBBBBBBBBBBBBBBB"}
		if vrt.Bool("processBFirst") {
			entries = []parser.VerifEntry{eb, entries[0]}
		} else {
			entries = append(entries, eb)
		}
		braces = append(braces, lb, rb)
		if vrt.Bool("commentBetween") {
			at := posVar("between.pos")
			g := commentGroup("mid", at, 1)
			vrt.Assume(ra+2 <= at && g.End()+1+typeTextB <= lb)
			add(g)
		}
	}
	if vrt.Bool("commentAfter") {
		at := posVar("after.pos")
		g := commentGroup("after", at, 1)
		vrt.Assume(braces[len(braces)-1]+2 <= at)
		add(g)
	}
	// (comment groups were added in position order by construction)

	p := parser.VerifParser(file, token.NewFileSet(), entries)
	_, err := p.GenerateBaseCode()
	vrt.Assert("stopped-at-printer", err != nil)

	// ---- the layout invariant that go/printer's sequential comment cursor needs
	var kept []*ast.Comment
	markerAt := map[string][]token.Pos{}
	var prev token.Pos
	// a comment group emptied by directive removal has no position: it must not stay attached
	vrt.Assert("no-emptied-doc-attached", file.Doc == nil || len(file.Doc.List) > 0)
	first := true
	for _, g := range file.Comments {
		if g == directive {
			// (go/printer skips an emptied group left in the list; only its lines must be gone)
			vrt.Assert("directive-lines-removed", len(g.List) == 0)
			continue
		}
		vrt.Assert("no-empty-group", len(g.List) > 0)
		if len(g.List) == 0 {
			continue
		}
		if !first {
			vrt.Assert("groups-in-position-order", prev < g.List[0].Slash)
		}
		first = false
		prev = g.List[0].Slash
		for _, c := range g.List {
			if headComment != nil && c == headComment.List[0] {
				continue // lies between A's markers and goes with the interface
			}
			if len(c.Text) == 21 && c.Text[:6] == "MARKER" {
				vrt.Assert("marker-is-a-group-of-its-own", len(g.List) == 1)
				markerAt[c.Text] = append(markerAt[c.Text], c.Slash)
			} else {
				kept = append(kept, c)
			}
		}
	}
	vrt.Assert("existing-comments-kept", len(kept) == len(original))
	for i := range original {
		if i < len(kept) {
			vrt.Assert("existing-comments-in-order", kept[i] == original[i])
		}
	}
	ma := markerAt["MARKERAAAAAAAAAAAAAAA"]
	vrt.Assert("A-has-two-markers", len(ma) == 2)
	if len(ma) == 2 {
		// the cut runs from the type keyword to the closing brace
		vrt.Assert("A-markers-at-its-braces", ma[0] == ta && ma[1] == ra)
	}
	if two {
		mb := markerAt["MARKERBBBBBBBBBBBBBBB"]
		vrt.Assert("B-has-two-markers", len(mb) == 2)
		if len(mb) == 2 {
			vrt.Assert("B-markers-at-its-braces", mb[0] == braces[2]-16 && mb[1] == braces[3])
		}
	}
	vrt.Reach("end")
}
