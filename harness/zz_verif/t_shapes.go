//go:build verif

package zz_verif

// Mode T harness for coverage of destination fields (C05) and explicit notations (C06) on the
// shape skeletons.

import (
	"go/ast"
	"go/types"
	"regexp"
	"strings"

	"github.com/reedom/convergen/pkg/generator"
	gmodel "github.com/reedom/convergen/pkg/generator/model"
	"github.com/reedom/convergen/pkg/vrt"
)

type emitted struct {
	path string // destination path without the variable name, e.g. "In.A"
	kind string // skip | nomatch | assign | slice | nested-init
	rhs  string
}

func flatten(as []gmodel.Assignment, out []emitted) []emitted {
	for _, a := range as {
		switch x := a.(type) {
		case gmodel.SkipField:
			out = append(out, emitted{pathOf(x.LHS), "skip", ""})
		case gmodel.NoMatchField:
			out = append(out, emitted{pathOf(x.LHS), "nomatch", ""})
		case gmodel.SimpleField:
			out = append(out, emitted{pathOf(x.LHS), "assign", x.RHS})
		case gmodel.SliceAssignment:
			out = append(out, emitted{pathOf(x.LHS), "slice", x.RHS})
		case gmodel.SliceLoopAssignment:
			out = append(out, emitted{pathOf(x.LHS), "slice", x.RHS})
		case gmodel.SliceTypecastAssignment:
			out = append(out, emitted{pathOf(x.LHS), "slice", x.RHS})
		case gmodel.NestStruct:
			out = flatten(x.Contents, out)
		}
	}
	return out
}

func pathOf(lhs string) string {
	if i := strings.Index(lhs, "."); i >= 0 {
		return lhs[i+1:]
	}
	return ""
}

// dstLeaves enumerates the destination paths reachable by descending by-value struct fields;
// members of imported types that the package cannot see are returned separately.
func dstLeaves(t types.Type, prefix, local string, leaves, invisible *[]string) {
	st := t.Underlying().(*types.Struct)
	for i := 0; i < st.NumFields(); i++ {
		f := st.Field(i)
		if f.Name() == "_" {
			continue // a blank field cannot be referred to
		}
		p := f.Name()
		if prefix != "" {
			p = prefix + "." + f.Name()
		}
		// Go's rule: an unexported field is visible in the package that declares it only (for a
		// member of an anonymous struct that is the package that wrote the struct type down)
		if f.Pkg() != nil && f.Pkg().Path() != local && !ast.IsExported(f.Name()) {
			*invisible = append(*invisible, p)
			continue
		}
		// (member-wise copies descend BY-VALUE struct fields only - C04: "same-named by-value struct
		// fields of different struct types are matched member by member"; a pointer field is a leaf,
		// and paths through it are outside the path space of these obligations)
		ft := f.Type()
		if s, ok := ft.Underlying().(*types.Struct); ok && s.NumFields() > 0 {
			before := len(*leaves)
			dstLeaves(ft, p, local, leaves, invisible)
			if len(*leaves) > before {
				continue
			}
			// a struct none of whose members the package can see is a leaf of its own
		}
		*leaves = append(*leaves, p)
	}
}

func isAncestorOrSelf(a, p string) bool { return a == p || strings.HasPrefix(p, a+".") }

type notation struct {
	kind string
	args []string
}

func parseNotations(texts ...string) []notation {
	var out []notation
	for _, t := range texts {
		for _, line := range strings.Split(t, "\n") {
			f := strings.Fields(line)
			if len(f) == 0 {
				continue
			}
			if f[0] == ":skip" && len(f) > 2 {
				// a /regexp/ pattern is the rest of the line (it may contain white space)
				if rest := strings.TrimSpace(strings.TrimPrefix(strings.TrimSpace(line), ":skip")); strings.HasPrefix(rest, "/") && strings.HasSuffix(rest, "/") {
					f = []string{":skip", rest}
				}
			}
			out = append(out, notation{f[0], f[1:]})
		}
	}
	return out
}

func skipMatches(pattern, path string, exact bool) bool {
	if strings.HasPrefix(pattern, "/") && strings.HasSuffix(pattern, "/") && len(pattern) >= 2 {
		expr := pattern[1 : len(pattern)-1]
		if !exact {
			expr = "(?i)" + expr
		}
		return regexp.MustCompile(expr).MatchString(path)
	}
	if exact {
		return pattern == path
	}
	return strings.EqualFold(pattern, path)
}

// refResolve: reference resolution of a :map/:conv source path from the source operand (fields,
// getters, embedded members), honouring visibility. Returns the type the path denotes.
func refResolve(t types.Type, path, local string) (types.Type, bool) {
	for _, seg := range strings.Split(path, ".") {
		name := strings.TrimSuffix(seg, "()")
		if name == "" {
			return nil, false
		}
		var pkg *types.Package
		base := t
		if p, ok := base.(*types.Pointer); ok {
			base = p.Elem()
		}
		if n, ok := base.(*types.Named); ok {
			pkg = n.Obj().Pkg()
		}
		obj, _, _ := types.LookupFieldOrMethod(t, true, pkg, name)
		if obj == nil {
			return nil, false
		}
		if obj.Pkg() != nil && obj.Pkg().Path() != local && !ast.IsExported(name) {
			return nil, false
		}
		if strings.HasSuffix(seg, "()") {
			f, ok := obj.(*types.Func)
			if !ok {
				return nil, false
			}
			sig := f.Type().(*types.Signature)
			if sig.Params().Len() != 0 || sig.Results().Len() != 1 {
				return nil, false
			}
			t = sig.Results().At(0).Type()
		} else {
			v, ok := obj.(*types.Var)
			if !ok {
				return nil, false
			}
			t = v.Type()
		}
	}
	return t, true
}

// typeOfDstPath returns the type of a destination path.
func typeOfDstPath(t types.Type, path string) types.Type {
	for _, seg := range strings.Split(path, ".") {
		if pt, ok := t.(*types.Pointer); ok {
			t = pt.Elem()
		}
		st, ok := t.Underlying().(*types.Struct)
		if !ok {
			return nil
		}
		var next types.Type
		for i := 0; i < st.NumFields(); i++ {
			if st.Field(i).Name() == seg {
				next = st.Field(i).Type()
			}
		}
		if next == nil {
			return nil
		}
		t = next
	}
	return t
}

func rhsUses(rhs, src string) bool {
	return rhs == src || rhs == src+".String()" || strings.HasSuffix(rhs, "("+src+")") || strings.HasSuffix(rhs, "(&"+src+")")
}

func shapesHarness(skeleton string, argNames []string) {
	local := "verifsk/" + skeleton
	n1, n2 := vrt.SlotText(skeleton, "N1"), vrt.SlotText(skeleton, "N2")
	setup := vrt.SkeletonPath(skeleton)
	var fn *gmodel.Function
	var err error
	var dstT, srcT types.Type
	exact := true
	stderr := vrt.CaptureStderr(func() {
		p, infos, e := parseSkeleton(skeleton)
		if e != nil {
			err = e
			return
		}
		m := infos[0].Methods[vrt.Choose("method", len(infos[0].Methods))]
		exact = m.Opts.ExactCase
		dstT = m.DstVar().Type()
		srcT = m.SrcVar().Type()
		fn, err = p.CreateBuilder().CreateFunction(m)
	})
	if err != nil {
		vrt.AssertMsg("rejection-has-positioned-diagnostic", positioned(stderr, setup), stderr)
		vrt.Reach("rejected")
		return
	}
	if pt, ok := dstT.(*types.Pointer); ok {
		dstT = pt.Elem()
	}
	lines := flatten(fn.Assignments, nil)
	var leaves, invisible []string
	dstLeaves(dstT, "", local, &leaves, &invisible)

	// ---- C05: every reachable leaf is covered exactly once; invisible members are never mentioned
	cover := map[string]emitted{}
	for _, leaf := range leaves {
		n := 0
		for _, l := range lines {
			if isAncestorOrSelf(l.path, leaf) {
				n++
				cover[leaf] = l
			}
		}
		vrt.AssertMsg("leaf-covered-exactly-once", n == 1, leaf)
	}
	for _, inv := range invisible {
		for _, l := range lines {
			vrt.AssertMsg("invisible-member-not-mentioned", !isAncestorOrSelf(inv, l.path) && !strings.Contains(l.rhs, "."+inv[strings.LastIndex(inv, ".")+1:]), inv)
		}
	}
	for _, l := range lines {
		if l.kind == "nomatch" {
			found := false
			for _, sl := range strings.Split(stderr, "\n") {
				if strings.HasPrefix(sl, setup+":") && strings.Contains(sl, " dst."+l.path+" ") {
					found = true
				}
			}
			vrt.AssertMsg("no-match-warned-with-position", found, l.path)
		}
	}

	// ---- C06: explicit notations
	nots := parseNotations(n1, n2)
	for _, nt := range nots {
		if nt.kind == ":case:off" {
			exact = false
		}
	}
	validPath := map[string]bool{}
	for _, leaf := range leaves {
		for i := 0; i <= len(leaf); i++ {
			if i == len(leaf) || leaf[i] == '.' {
				validPath[leaf[:i]] = true
			}
		}
	}
	for _, leaf := range leaves {
		skipped := false
		for _, nt := range nots {
			if nt.kind != ":skip" {
				continue
			}
			for a := range validPath {
				if isAncestorOrSelf(a, leaf) && skipMatches(nt.args[0], a, exact) {
					skipped = true
				}
			}
		}
		if skipped {
			// "never assigned": covered by a skip line, or by a no-match comment on an enclosing path
			k := cover[leaf].kind
			vrt.AssertMsg("skip-pattern-never-assigned", k == "skip" || k == "nomatch", leaf+" covered by "+k+" on "+cover[leaf].path)
		}
	}
	for d := range validPath {
		// the first notation of the winning kind that names d exactly (case-sensitively)
		var win *notation
		for _, kind := range []string{":conv", ":map", ":literal"} {
			for i := range nots {
				nt := &nots[i]
				if nt.kind != kind || win != nil {
					continue
				}
				switch kind {
				case ":conv":
					dd := nt.args[1]
					if len(nt.args) > 2 {
						dd = nt.args[2]
					}
					if dd == d {
						win = nt
					}
				case ":map":
					if !strings.HasPrefix(nt.args[0], "$") && nt.args[1] == d {
						win = nt
					}
				case ":literal":
					if nt.args[0] == d {
						win = nt
					}
				}
			}
			if win == nil && kind == ":map" {
				for i := range nots {
					if nots[i].kind == ":map" && strings.HasPrefix(nots[i].args[0], "$") && nots[i].args[1] == d && win == nil {
						win = &nots[i]
					}
				}
			}
		}
		if win == nil {
			continue
		}
		var line *emitted
		for i := range lines {
			if lines[i].path == d {
				line = &lines[i]
			}
		}
		// some leaf below d tells how d is covered
		cov := ""
		for _, leaf := range leaves {
			if isAncestorOrSelf(d, leaf) {
				cov = cover[leaf].kind + " on " + cover[leaf].path
				if cover[leaf].kind == "skip" {
					cov = "skip"
				}
			}
		}
		if cov == "skip" || strings.HasPrefix(cov, "nomatch on ") && line == nil {
			continue // :skip wins over everything; an unmatched enclosing struct leaves nothing to assign
		}
		vrt.AssertMsg("explicit-notation-applied-to-its-path", line != nil, win.kind+" "+strings.Join(win.args, " ")+": "+d+" is covered by "+cov)
		if line == nil {
			continue
		}
		switch win.kind {
		case ":literal":
			vrt.AssertMsg("literal-assigned", line.kind == "assign" && line.rhs == strings.Join(win.args[1:], " "), d+" = "+line.rhs)
		case ":map":
			src := "src." + win.args[0]
			if strings.HasPrefix(win.args[0], "$") {
				src = ""
				rest := win.args[0]
				seg := rest
				if i := strings.Index(rest, "."); i >= 0 {
					seg, rest = rest[:i], rest[i:]
				} else {
					rest = ""
				}
				// $n is the n-th argument of the method: $1 the source itself, $2 the first
				// additional argument (README example ":map $2 Status", fixture usecase/maps)
				if seg == "$1" {
					src = "src" + rest
				} else if seg == "$2" && len(argNames) > 0 {
					src = argNames[0] + rest
				} else if seg == "$3" && len(argNames) > 1 {
					src = argNames[1] + rest
				}
			}
			vrt.AssertMsg("mapped-from-its-source", line.kind == "nomatch" || (src != "" && line.kind == "assign" && rhsUses(line.rhs, src)), d+" = "+line.rhs+" ("+line.kind+"), source "+src)
			// a source that resolves (reference resolution on go/types) to a type assignable to the
			// destination must be used: "no match" is not acceptable then
			if strings.HasPrefix(win.args[0], "$") && src != "" {
				var st types.Type
				switch {
				case win.args[0] == "$2" && len(argNames) > 0:
					st = types.Typ[types.String] // extra string
				case win.args[0] == "$3" && len(argNames) > 1:
					st = types.Typ[types.Int] // n int
				case strings.HasPrefix(win.args[0], "$1."):
					st, _ = refResolve(srcT, win.args[0][3:], local)
				}
				if dt := typeOfDstPath(dstT, d); st != nil && dt != nil && types.AssignableTo(st, dt) {
					vrt.AssertMsg("resolvable-argument-source-is-used", line.kind == "assign", d+" from "+win.args[0]+": "+line.kind)
				}
			}
			if !strings.HasPrefix(win.args[0], "$") {
				if st, ok := refResolve(srcT, win.args[0], local); ok {
					if dt := typeOfDstPath(dstT, d); dt != nil && types.AssignableTo(st, dt) {
						vrt.AssertMsg("resolvable-source-is-used", line.kind == "assign", d+" from "+win.args[0]+": "+line.kind)
					}
				}
			}
		case ":conv":
			src := "src." + win.args[1]
			ok := line.kind == "nomatch" || (line.kind == "assign" && (strings.HasPrefix(line.rhs, win.args[0]+"("+src) || strings.HasPrefix(line.rhs, win.args[0]+"(&"+src) || strings.Contains(line.rhs, win.args[0]+"(")))
			vrt.AssertMsg("converted-by-its-converter", ok && (line.kind == "nomatch" || strings.Contains(line.rhs, src)), d+" = "+line.rhs+" ("+line.kind+")")
		}
	}
	// :literal / :conv / :map address their destination path case-SENSITIVELY whatever the case rule
	// says (README: "Other notations like :map and :conv retain case-sensitive matches"): a value
	// that only a notation can supply appears on exactly the path the notation names
	litPaths, convPaths, extraPaths := map[string][]string{}, map[string][]string{}, []string{}
	for _, nt := range nots {
		switch nt.kind {
		case ":literal":
			t := strings.Join(nt.args[1:], " ")
			litPaths[t] = append(litPaths[t], nt.args[0])
		case ":conv":
			d := nt.args[1]
			if len(nt.args) > 2 {
				d = nt.args[2]
			}
			convPaths[nt.args[0]] = append(convPaths[nt.args[0]], d)
		case ":map":
			// (only for a source no destination field is named after, so that the default name
			// match cannot have produced the same line)
			if nt.args[0] == "Extra" {
				extraPaths = append(extraPaths, nt.args[1])
			}
		}
	}
	for _, l := range lines {
		if l.kind != "assign" {
			continue
		}
		if ps, ok := litPaths[l.rhs]; ok {
			vrt.AssertMsg("literal-only-on-a-path-it-names", inList(ps, l.path), l.path+" = "+l.rhs)
		}
		for fn, ps := range convPaths {
			if strings.HasPrefix(l.rhs, fn+"(") {
				vrt.AssertMsg("converter-only-on-a-path-it-names", inList(ps, l.path), l.path+" = "+l.rhs)
			}
		}
		if l.rhs == "src.Extra" && len(extraPaths) > 0 {
			vrt.AssertMsg("mapped-source-only-on-a-path-it-names", inList(extraPaths, l.path), l.path+" = "+l.rhs)
		}
	}
	text := generator.NewGenerator(gmodel.Code{}).FuncToString(fn)
	vrt.Observe("func", text)
	v := vrt.TypeCheckFuncs(skeleton, text)
	vrt.AssertMsg("emitted-function-type-checks", v == "", v)
	vrt.Reach("end")
}

// C06Shapes: skeleton shapes (nested 2 deep, embedded, anonymous, imported with unexported members,
// pointer and slice of struct, empty struct, additional arguments).
func C06Shapes() { shapesHarness("shapes", []string{"extra", "n"}) }

// C05SameName: the setup package has the same package NAME as the imported package whose struct
// (with unexported members) is the destination / source.
func C05SameName() { shapesHarness("samename", nil) }
