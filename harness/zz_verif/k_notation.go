//go:build verif

package zz_verif

// Mode K harness for C14 (and C06's notation-argument parsing): the real parseNotationInComments
// on a notation line whose ARGUMENT TEXT is an arbitrary byte string - the menus of the mode-T
// harnesses only contain what somebody thought of.

import (
	"strings"

	gmodel "github.com/reedom/convergen/pkg/generator/model"
	"github.com/reedom/convergen/pkg/parser"
	"github.com/reedom/convergen/pkg/vrt"
)

// C14NotationBytes: for every type-free notation and every argument text (ASCII bytes 1..127 except
// line breaks, which end a // comment) the parser neither panics nor mis-splits: it either reports
// an error (with a positioned diagnostic) or records exactly the arguments the documented syntax
// `:<notation> <arg> <arg> ...` (arguments separated by white space) denotes.
func C14NotationBytes() {
	maxLen := 4
	if vrt.Thorough() {
		maxLen = 5
	}
	names := []string{"literal", "map", "conv", "style", "match", "recv", "reverse", "case:off", "nosuch"}
	name := names[vrt.Choose("notation", len(names))]
	sep := []string{" ", "\t"}[vrt.Choose("separator", 2)]
	args := vrt.Bytes("args", maxLen)
	for i := 0; i < len(args); i++ {
		vrt.Assume(args[i] != '\n' && args[i] != '\r' && args[i] < 0x80)
	}
	text := "// :" + name + sep + args
	var res parser.VerifNotationResult
	stderr := vrt.CaptureStderr(func() { res = parser.VerifParseNotation(text) })
	fields := strings.Fields(args)

	needs := map[string]int{"literal": 2, "map": 2, "conv": 2, "style": 1, "match": 1, "recv": 1}[name]
	if len(fields) < needs {
		vrt.AssertMsg("missing-arguments-rejected", res.Err != "", name)
		vrt.AssertMsg("rejection-has-diagnostic", strings.Contains(stderr, "needs"), stderr)
		vrt.Reach("rejected")
		return
	}
	switch name {
	case "literal":
		// the literal text: the rest of the line after the first argument
		i := 0
		for i < len(args) && asciiSpace(args[i]) {
			i++
		}
		for i < len(args) && !asciiSpace(args[i]) {
			i++
		}
		for i < len(args) && asciiSpace(args[i]) {
			i++
		}
		if !vrt.ParsesAsExpr(args[i:]) {
			// not a Go expression: refused where it is written, not later by the formatter
			vrt.Assert("malformed-literal-rejected", res.Err != "")
			vrt.AssertMsg("rejection-has-diagnostic", strings.Contains(stderr, "literal"), stderr)
			vrt.Reach("rejected")
			return
		}
		vrt.AssertMsg("literal-accepted", res.Err == "" && len(res.Literals) == 1, res.Err)
		if len(res.Literals) == 1 {
			vrt.AssertMsg("literal-destination-is-first-argument", res.Literals[0][0] == fields[0], res.Literals[0][0])
			// the literal is the rest of the line: it starts with the second argument
			vrt.AssertMsg("literal-text-is-the-rest-of-the-line", strings.HasPrefix(res.Literals[0][1], fields[1]), res.Literals[0][1])
		}
	case "map":
		vrt.AssertMsg("map-accepted", res.Err == "" && len(res.Maps) == 1, res.Err)
		if len(res.Maps) == 1 {
			vrt.Assert("map-source-is-first-argument", res.Maps[0][0] == fields[0])
			vrt.Assert("map-destination-is-second-argument", res.Maps[0][1] == fields[1])
		}
	case "conv":
		vrt.AssertMsg("conv-accepted", res.Err == "" && len(res.Convs) == 1, res.Err)
		if len(res.Convs) == 1 {
			dst := fields[1]
			if len(fields) >= 3 {
				dst = fields[2]
			}
			vrt.Assert("conv-function-is-first-argument", res.Convs[0][0] == fields[0])
			vrt.Assert("conv-source-is-second-argument", res.Convs[0][1] == fields[1])
			vrt.Assert("conv-destination-is-third-or-second-argument", res.Convs[0][2] == dst)
		}
	case "style":
		ok := fields[0] == "arg" || fields[0] == "return"
		vrt.Assert("style-accepted-iff-documented-value", (res.Err == "") == ok)
		if ok {
			vrt.Assert("style-set", (res.Style == gmodel.DstVarArg.String()) == (fields[0] == "arg"))
		}
	case "match":
		// ("tag" is a value the code reserves; the README documents name and none)
		if fields[0] == "name" || fields[0] == "none" {
			vrt.Assert("match-documented-value-accepted", res.Err == "")
		} else if fields[0] != "tag" {
			vrt.Assert("match-unknown-value-rejected", res.Err != "")
		}
	case "recv":
		id := fields[0]
		valid := true
		for i := 0; i < len(id); i++ {
			c := id[i]
			letter := c >= 'a' && c <= 'z' || c >= 'A' && c <= 'Z'
			digit := c >= '0' && c <= '9'
			if !letter && !(i > 0 && digit) && !(c == '_') {
				valid = false
			}
		}
		for _, kw := range []string{"if", "go", "for", "var", "map", "func", "type", "case", "else", "goto", "chan", "break", "const", "defer", "range"} {
			if id == kw {
				valid = false
			}
		}
		if id == "_" {
			valid = false // the blank identifier names nothing
		}
		if !valid {
			vrt.Assert("receiver-that-is-no-identifier-rejected", res.Err != "")
		} else {
			vrt.Assert("receiver-identifier-accepted", res.Err == "" && res.Receiver == id)
		}
	case "reverse":
		// :reverse needs :style arg, which this line does not carry
		vrt.Assert("reverse-without-style-arg-rejected", res.Err != "")
	case "case:off":
		vrt.Assert("toggle-accepted-whatever-follows", res.Err == "" && !res.ExactCase)
	default:
		vrt.Assert("unknown-notation-ignored", res.Err == "" && len(res.Literals)+len(res.Maps)+len(res.Convs) == 0)
	}
	vrt.Reach("end")
}

func asciiSpace(c byte) bool { return c == ' ' || c >= '\t' && c <= '\r' }
