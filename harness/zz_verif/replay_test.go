//go:build verif

package zz_verif

import (
	"fmt"
	"os"
	"testing"

	"github.com/reedom/convergen/pkg/vrt"
)

// TestVerifReplay runs one harness natively with the replay table $VERIF_REPLAY.
func TestVerifReplay(t *testing.T) {
	name := os.Getenv("VERIF_HARNESS")
	h, ok := harnesses[name]
	if !ok {
		t.Fatalf("unknown harness %q", name)
	}
	vrt.Reset()
	func() {
		defer func() {
			if p := recover(); p != nil {
				if vrt.IsAssumeFailed(p) {
					fmt.Println("VRT-ASSUME-FAILED")
					return
				}
				fmt.Printf("VRT-PANIC %v\n", p)
			}
		}()
		h()
	}()
	for _, l := range vrt.Log {
		fmt.Println("VRT-LOG", l)
	}
	for _, l := range vrt.Failed {
		fmt.Printf("VRT-ASSERT-FAILED %s\n", l)
	}
	fmt.Println("VRT-DONE")
}
