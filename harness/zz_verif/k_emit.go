//go:build verif

package zz_verif

// Mode K harnesses over the emitter kernels: generator.FuncToString, ManipulatorToString,
// AssignmentToString and the model.Assignment String() family.

import (
	"github.com/reedom/convergen/pkg/generator"
	gmodel "github.com/reedom/convergen/pkg/generator/model"
	"github.com/reedom/convergen/pkg/vrt"
)

type fnShape struct {
	recv, styleArg, srcPtr, dstPtr, retError bool
	nargs, argPtrMask                        int
}

// arbitraryFunction builds a model.Function whose every flag is an arbitrary (symbolic) value;
// names and type expressions are opaque atoms.
func arbitraryFunction(maxArgs int) (*gmodel.Function, fnShape) {
	var sh fnShape
	f := &gmodel.Function{Name: vrt.AtomFunc}
	sh.recv = vrt.Bool("recv")
	if sh.recv {
		f.Receiver = vrt.AtomRecv
	}
	sh.srcPtr = vrt.Bool("srcPtr")
	sh.dstPtr = vrt.Bool("dstPtr")
	f.Src = gmodel.Var{Name: vrt.AtomSrc, Type: vrt.AtomSrcT, Pointer: sh.srcPtr}
	if sh.recv {
		f.Src.Name = vrt.AtomRecv // the builder overrides the source name with the receiver name
	}
	f.Dst = gmodel.Var{Name: vrt.AtomDst, Type: vrt.AtomDstT, Pointer: sh.dstPtr}
	sh.nargs = vrt.Choose("nargs", maxArgs+1)
	for i := 0; i < sh.nargs; i++ {
		p := vrt.Bool("argPtr" + vrt.ArgName(i))
		if p {
			sh.argPtrMask |= 1 << i
		}
		f.AdditionalArgs = append(f.AdditionalArgs, gmodel.Var{Name: vrt.ArgName(i), Type: vrt.ArgType(i), Pointer: p})
	}
	sh.retError = vrt.Bool("retError")
	f.RetError = sh.retError
	sh.styleArg = vrt.Bool("styleArg")
	if sh.styleArg {
		f.DstVarStyle = gmodel.DstVarArg
	} else {
		f.DstVarStyle = gmodel.DstVarReturn
	}
	return f, sh
}

// C08Signature: for every combination of receiver, style, pointer-ness, error result and 0..3
// additional arguments the header emitted by the real FuncToString is the documented one.
func C08Signature() {
	f, sh := arbitraryFunction(3)
	nComments := vrt.Choose("ncomments", 3)
	for i := 0; i < nComments; i++ {
		f.Comments = append(f.Comments, "// doc line")
	}
	out := generator.NewGenerator(gmodel.Code{}).FuncToString(f)
	vrt.Observe("out", out)
	verdict := vrt.JudgeSignature(out, sh.recv, sh.styleArg, sh.srcPtr, sh.dstPtr, sh.retError, sh.nargs, sh.argPtrMask)
	vrt.AssertMsg("signature-shape", verdict == "", verdict)
	vrt.Reach("end")
}

func arbitraryHook(tag, name string) (*gmodel.Manipulator, [4]bool) {
	m := &gmodel.Manipulator{Pkg: "hk", Name: name}
	m.IsDstPtr = vrt.Bool(tag + "DstPtr")
	m.IsSrcPtr = vrt.Bool(tag + "SrcPtr")
	m.HasAdditionalArgs = vrt.Bool(tag + "Args")
	m.RetError = vrt.Bool(tag + "Err")
	return m, [4]bool{m.IsDstPtr, m.IsSrcPtr, m.HasAdditionalArgs, m.RetError}
}

// hookFunction: function shape for the hook harnesses (pointer-ness of additional arguments
// is irrelevant to hooks and fixed; their count is 0 or 2).
func hookFunction() (*gmodel.Function, fnShape) {
	var sh fnShape
	f := &gmodel.Function{Name: vrt.AtomFunc}
	sh.recv = vrt.Bool("recv")
	sh.srcPtr = vrt.Bool("srcPtr")
	sh.dstPtr = vrt.Bool("dstPtr")
	f.Src = gmodel.Var{Name: vrt.AtomSrc, Type: vrt.AtomSrcT, Pointer: sh.srcPtr}
	if sh.recv {
		f.Receiver = vrt.AtomRecv
		f.Src.Name = vrt.AtomRecv
	}
	f.Dst = gmodel.Var{Name: vrt.AtomDst, Type: vrt.AtomDstT, Pointer: sh.dstPtr}
	if vrt.Bool("twoArgs") {
		sh.nargs = 2
		for i := 0; i < 2; i++ {
			f.AdditionalArgs = append(f.AdditionalArgs, gmodel.Var{Name: vrt.ArgName(i), Type: vrt.ArgType(i)})
		}
	}
	sh.retError = vrt.Bool("retError")
	f.RetError = sh.retError
	sh.styleArg = vrt.Bool("styleArg")
	if sh.styleArg {
		f.DstVarStyle = gmodel.DstVarArg
	} else {
		f.DstVarStyle = gmodel.DstVarReturn
	}
	return f, sh
}

func hookHarness(hookMask int) {
	f, sh := hookFunction()
	var pre, post [4]bool
	if hookMask&1 != 0 {
		f.PreProcess, pre = arbitraryHook("pre", "Pre")
		// a hook that returns an error is only accepted into a function with an error result
		vrt.Assume(!pre[3] || sh.retError)
	}
	if hookMask&2 != 0 {
		f.PostProcess, post = arbitraryHook("post", "Post")
		vrt.Assume(!post[3] || sh.retError)
	}
	nAssign := vrt.Choose("nassign", 3)
	for i := 0; i < nAssign; i++ {
		f.Assignments = append(f.Assignments, gmodel.SimpleField{LHS: vrt.AtomDst + ".F" + vrt.ArgName(i), RHS: f.Src.Name + ".F" + vrt.ArgName(i)})
	}
	out := generator.NewGenerator(gmodel.Code{}).FuncToString(f)
	vrt.Observe("out", out)
	verdict := vrt.JudgeHooks(out, sh.recv, sh.styleArg, sh.srcPtr, sh.dstPtr, sh.retError, sh.nargs,
		hookMask, pre[0], pre[1], pre[2], pre[3], post[0], post[1], post[2], post[3], nAssign)
	vrt.AssertMsg("hook-calls", verdict == "", verdict)
	vrt.Reach("end")
}

// C10HookPre / C10HookPost: a hook call is emitted exactly once, in the right place, with
// operands whose pointer depth (as declared in the emitted header, adjusted by the emitted & / *)
// is what the hook declares; additional arguments are forwarded in order.
func C10HookPre()  { hookHarness(1) }
func C10HookPost() { hookHarness(2) }

// C10HookBoth: both hooks present (all 2^8 hook flag combinations x function shape);
// thorough tier only (the product space is large).
func C10HookBoth() { hookHarness(3) }

// C10NoHook: no hook configured => no hook call emitted.
func C10NoHook() { hookHarness(0) }

// errLeaf returns an arbitrary leaf assignment relevant to error flow.
func errLeaf(tag string, retError bool) gmodel.Assignment {
	lhs := vrt.AtomDst + "." + tag
	rhs := vrt.AtomSrc + "." + tag
	switch vrt.Choose("kind."+tag, 4) {
	case 0:
		return gmodel.SkipField{LHS: lhs}
	case 1:
		return gmodel.SimpleField{LHS: lhs, RHS: rhs}
	case 2:
		// error-returning converter/getter; only wired into functions with an error result
		vrt.Assume(retError)
		return gmodel.SimpleField{LHS: lhs, RHS: "cv." + tag + "(" + rhs + ")", Error: true}
	default:
		return gmodel.SliceTypecastAssignment{LHS: lhs, RHS: rhs, Typ: "[]ext.T0", Cast: "ext.T0"}
	}
}

func errNest(tag string, depth int, retError bool) gmodel.Assignment {
	lhs := vrt.AtomDst + "." + tag
	rhs := vrt.AtomSrc + "." + tag
	ns := gmodel.NestStruct{}
	if vrt.Bool("init." + tag) {
		ns.InitExpr = lhs + " = &ext.T1{}"
	}
	if vrt.Bool("nullchk." + tag) {
		ns.NullCheckExpr = rhs
	}
	n := 1 + vrt.Choose("ncontents."+tag, 2)
	for i := 0; i < n; i++ {
		t := tag + ".N" + vrt.ArgName(i)
		if depth > 1 && i == 0 && vrt.Bool("deeper."+t) {
			ns.Contents = append(ns.Contents, errNest(t, depth-1, retError))
		} else {
			ns.Contents = append(ns.Contents, errLeaf(t, retError))
		}
	}
	return ns
}

func errFlowHarness(depth int) {
	f := &gmodel.Function{Name: vrt.AtomFunc}
	f.Src = gmodel.Var{Name: vrt.AtomSrc, Type: vrt.AtomSrcT, Pointer: true}
	dstPtr := vrt.Bool("dstPtr")
	f.Dst = gmodel.Var{Name: vrt.AtomDst, Type: vrt.AtomDstT, Pointer: dstPtr}
	retError := vrt.Bool("retError")
	f.RetError = retError
	styleArg := vrt.Bool("styleArg")
	if styleArg {
		f.DstVarStyle = gmodel.DstVarArg
	} else {
		f.DstVarStyle = gmodel.DstVarReturn
	}
	if vrt.Bool("preErrHook") {
		vrt.Assume(retError)
		f.PreProcess = &gmodel.Manipulator{Pkg: "hk", Name: "Pre", IsDstPtr: true, IsSrcPtr: true, RetError: true}
	}
	if vrt.Bool("postErrHook") {
		vrt.Assume(retError)
		f.PostProcess = &gmodel.Manipulator{Pkg: "hk", Name: "Post", IsDstPtr: true, IsSrcPtr: true, RetError: true}
	}
	// first item arbitrary (leaf or nested struct), optional second item error-capable
	if vrt.Bool("firstIsNest") {
		f.Assignments = append(f.Assignments, errNest("A", depth, retError))
	} else {
		f.Assignments = append(f.Assignments, errLeaf("A", retError))
	}
	if vrt.Bool("secondErrItem") {
		vrt.Assume(retError)
		f.Assignments = append(f.Assignments, gmodel.SimpleField{LHS: vrt.AtomDst + ".B", RHS: "cv.B(" + vrt.AtomSrc + ".B)", Error: true})
	}
	out := generator.NewGenerator(gmodel.Code{}).FuncToString(f)
	vrt.Observe("out", out)
	verdict := vrt.JudgeErrFlow(out, retError, styleArg, dstPtr)
	vrt.AssertMsg("err-checked-and-returned", verdict == "", verdict)
	vrt.Reach("end")
}

// C07ErrFlow: every statement that assigns err (at any nesting depth, including hooks) is
// immediately followed by `if err != nil { return ... }` propagating err.
func C07ErrFlow()     { errFlowHarness(1) }
func C07ErrFlowDeep() { errFlowHarness(2) }
