//go:build verif

package zz_verif

// Mode K harness for C12: the real NewParser (incl. its ParseFile hook) with the package loader,
// the file system and go/parser as symbolic environment.

import (
	"path/filepath"

	"github.com/reedom/convergen/pkg/parser"
	"github.com/reedom/convergen/pkg/vrt"
)

// C12LoaderHook: whatever bytes the output path holds they are never handed to the Go parser,
// every other file is parsed unchanged (the input file with comments), and the result of NewParser
// depends neither on the state of the output path nor on the error lists of the loaded package.
func C12LoaderHook() {
	if !vrt.Symbolic() {
		return
	}
	const src, other = "dir/setup.go", "dir/other.go"
	// the output path names dir/setup.gen.go under any of several spellings of the directory, or
	// a file in another directory (another package: outside what the loader lists)
	abs, _ := filepath.Abs("dir/setup.gen.go")
	// "link" is another name of a directory that may or may not be dir itself (a symbolic link)
	spellings := []string{"dir/setup.gen.go", "./dir/setup.gen.go", "dir/../dir/setup.gen.go", abs, "elsewhere/setup.gen.go", "link/setup.gen.go"}
	spelling := vrt.Choose("output-path-spelling", len(spellings))
	dst := spellings[spelling]
	sameDir := spelling != 4
	absDir, _ := filepath.Abs("dir")
	absLink, _ := filepath.Abs("link")
	absElse, _ := filepath.Abs("elsewhere")
	vrt.SetEnv("fs.exists:"+absDir, true)
	vrt.SetEnv("fs.exists:"+absLink, true)
	vrt.SetEnv("fs.exists:"+absElse, true)
	if spelling == 5 {
		sameDir = vrt.Bool("link-names-the-input-directory")
	}
	vrt.SetEnv("fs", "symbolic")
	vrt.SetEnv("load", "symbolic")
	dstExists := vrt.Bool("output-file-exists")
	vrt.SetEnv("fs.exists:"+src, true)
	vrt.SetEnv("fs.exists:"+dst, dstExists)
	vrt.SetEnv("fs.exists:"+other, true)
	// three distinct files (hard links between them are outside the model)
	pair := func(a, b string) string {
		if a > b {
			a, b = b, a
		}
		return "fs.same:" + a + "|" + b
	}
	vrt.SetEnv(pair(other, src), false)
	vrt.SetEnv(pair(absDir, absLink), sameDir && spelling == 5)
	vrt.SetEnv(pair(absDir, absElse), false)
	// -out may name the input file itself
	outIsIn := vrt.Bool("output-is-the-input-file")
	vrt.SetEnv(pair(dst, src), outIsIn)
	vrt.Assume(vrt.Implies(outIsIn, dstExists))
	vrt.SetEnv(pair(other, dst), false)
	// the loader delivers the package's files in an arbitrary order; the output file, when it
	// exists, has arbitrary content (stale, truncated, broken)
	names := []string{src, dst, other}
	order := vrt.Choose("delivery-order", 3)
	n := 0
	content := map[string]string{}
	var delivered []string
	for k := 0; k < 3; k++ {
		f := names[(k+order)%3]
		if f == dst && !dstExists {
			continue
		}
		vrt.SetEnv("load.file."+string(rune('0'+n)), f)
		content[f] = vrt.String("content("+f+")", 20)
		vrt.SetEnv("load.content."+string(rune('0'+n)), content[f])
		delivered = append(delivered, f)
		n++
	}
	vrt.SetEnv("load.files", n)

	p, err := parser.NewParser(src, dst)

	parsed := map[string]int{}
	srcParseFailed := false
	overlays := 0
	pkgClauseFailed := vrt.Bool("parsedisk.err(" + src + ")")
	for i := 0; i < vrt.EffectCount(); i++ {
		switch vrt.EffectOp(i) {
		case "load.call":
			// the loader works in the directory of the INPUT file, whatever the working directory
			// is, and is asked for the file by its absolute name (C13: same result from any cwd)
			absSrc, _ := filepath.Abs(src)
			vrt.Assert("loader-queried-by-absolute-input-path", vrt.EffectStr(i, 0) == "file="+absSrc)
			vrt.Assert("loader-runs-in-the-input-directory", vrt.EffectStr(i, 1) == filepath.Dir(absSrc))
		case "load.overlay":
			// what the loader is told about the output path: an empty file of the input's package,
			// under the path's absolute name, whatever the spelling - and nothing else
			overlays++
			vrt.Assert("overlay-names-the-output-path", vrt.EffectStr(i, 0) == abs && sameDir && dstExists)
			vrt.Assert("overlay-is-a-bare-package-clause", vrt.EffectStr(i, 1) == "package pkgname\n")
		case "ParseFile":
			f := vrt.EffectStr(i, 0)
			parsed[f]++
			vrt.Assert("output-file-bytes-never-parsed", f != dst && !(outIsIn && f == src))
			vrt.Assert("bytes-parsed-unchanged", vrt.EffectStr(i, 1) == content[f])
			wantMode := 0
			if f == src {
				wantMode = 4 // parser.ParseComments
			}
			vrt.Assert("parse-mode", vrt.EffectInt(i, 2) == wantMode)
		case "ParseFileFromDisk":
			// reading the package clause of the INPUT file from disk is fine; the output path is not read
			vrt.Assert("output-file-never-read-from-disk", vrt.EffectStr(i, 0) != dst || outIsIn)
		case "hook-returned":
			if vrt.EffectStr(i, 0) == dst {
				vrt.Assert("output-file-withheld-silently", vrt.EffectStr(i, 1) == "false" && vrt.EffectStr(i, 2) == "false")
			}
			if vrt.EffectStr(i, 0) == src && vrt.EffectStr(i, 2) == "true" {
				srcParseFailed = true
			}
		}
	}
	for _, f := range delivered {
		if f != dst && !(outIsIn && f == src) {
			vrt.Assert("every-other-file-parsed-once", parsed[f] == 1)
		}
	}
	// an existing output file in the input's directory is always presented blank to the loader
	// (unless the input's own package clause cannot be read, which fails the run anyway)
	if dstExists && sameDir && !pkgClauseFailed {
		vrt.Assert("existing-output-presented-blank-under-every-spelling", overlays == 1)
	} else {
		vrt.Assert("no-overlay-otherwise", overlays == 0)
	}
	// the outcome: decided by the loader's own result and the input file, not by the output path
	// nor by the package's error lists
	loadFailed := vrt.Bool("load.err")
	noPkg := !loadFailed && !vrt.Bool("load.haspkg")
	// an output path naming the input file withholds the input itself: rejected
	wantErr := loadFailed || noPkg || srcParseFailed || outIsIn
	vrt.Assert("result-independent-of-output-path-and-package-errors", (err != nil) == wantErr && (p != nil) == !wantErr)
	vrt.Reach("end")
}
