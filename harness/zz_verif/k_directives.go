//go:build verif

package zz_verif

// Mode K harness for C11: which comment lines are directives / notations (and are therefore
// removed from the output) - the real compiled expressions against the documented spellings.

import (
	"github.com/reedom/convergen/pkg/parser"
	"github.com/reedom/convergen/pkg/vrt"
)

// tailAfterWord: "" or a string starting with a non-word byte (what may follow a directive keyword).
func tailAfterWord(name string, max int) string {
	t := vrt.Bytes(name, max)
	if t != "" {
		c := t[0]
		vrt.Assume(!(c >= '0' && c <= '9' || c >= 'A' && c <= 'Z' || c >= 'a' && c <= 'z' || c == '_'))
	}
	noNewline(t)
	return t
}

func letterStart(name string, max int) string {
	t := vrt.Bytes(name, max)
	vrt.Assume(t != "")
	vrt.Assume(t[0] >= 'a' && t[0] <= 'z' || t[0] >= 'A' && t[0] <= 'Z')
	return t
}

func noNewline(s string) {
	for i := 0; i < len(s); i++ {
		vrt.Assume(s[i] != '\n')
	}
}

// C11Directives: every documented spelling of the build constraint, of go:generate and of a
// notation line is recognised (so it is removed from the output), and an ordinary comment - one
// whose text after "// " starts with a letter - is never recognised as one (so no user comment is
// removed), whatever it mentions further on.
func C11Directives() {
	if !vrt.Symbolic() {
		return
	}
	build, notation, marker := parser.VerifRegexps()
	switch vrt.Choose("case", 11) {
	case 0:
		s := "//go:build convergen" + tailAfterWord("tail", 4)
		vrt.Assert("go:build-convergen-recognised", build.MatchString(s))
	case 1:
		s := "// +build convergen" + tailAfterWord("tail", 4)
		vrt.Assert("+build-convergen-recognised", build.MatchString(s))
	case 2:
		s := "//go:generate" + tailAfterWord("tail", 6)
		vrt.Assert("go:generate-recognised", build.MatchString(s))
	case 3:
		// an ordinary comment, possibly mentioning a directive further on
		s := "// " + letterStart("text", 22)
		noNewline(s)
		vrt.Assert("ordinary-comment-is-no-directive", !build.MatchString(s))
	case 4:
		s := "/* " + letterStart("text", 22)
		noNewline(s)
		vrt.Assert("block-comment-is-no-directive", !build.MatchString(s))
	case 5:
		name := vrt.Bytes("name", 4)
		vrt.Assume(name != "")
		for i := 0; i < len(name); i++ {
			vrt.Assume(name[i] > ' ')
		}
		rest := vrt.Bytes("rest", 4)
		noNewline(rest)
		sp := []string{"", " ", "  "}[vrt.Choose("space", 3)]
		s := "//" + sp + ":" + name
		if rest != "" {
			s += " " + rest
		}
		vrt.Assert("notation-line-recognised", notation.MatchString(s))
	case 6:
		s := "// " + letterStart("text", 12)
		noNewline(s)
		vrt.Assert("ordinary-comment-is-no-notation", !notation.MatchString(s) && !marker.MatchString(s))
	case 7:
		s := "// :convergen" + tailAfterWord("tail", 4)
		vrt.Assert("marker-recognised", marker.MatchString(s) && notation.MatchString(s))
	case 8:
		// the constraint is an expression that mentions the tag
		pre := []string{"(", "!ignore && ", "linux && (", " ", "ignore || "}[vrt.Choose("expr", 5)]
		s := "//go:build " + pre + "convergen" + tailAfterWord("tail", 4)
		vrt.Assert("go:build-expression-with-the-tag-recognised", build.MatchString(s))
	case 9:
		// a comment that merely STARTS like a directive after a blank ("// go:generate is how ...") is
		// an ordinary comment to Go, and so it is here
		s := "// go:generate" + tailAfterWord("tail", 6)
		vrt.Assert("blank-separated-go:generate-is-no-directive", !build.MatchString(s))
	default:
		t := vrt.Bytes("suffix", 3)
		vrt.Assume(t != "")
		c := t[0]
		vrt.Assume(c >= '0' && c <= '9' || c >= 'A' && c <= 'Z' || c >= 'a' && c <= 'z' || c == '_')
		noNewline(t)
		vrt.Assert("longer-word-is-no-marker", !marker.MatchString("// :convergen"+t))
	}
	vrt.Reach("end")
}
