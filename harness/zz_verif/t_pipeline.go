//go:build verif

package zz_verif

// Mode T harnesses: the real front half (NewParser -> Parse -> CreateFunctions -> FuncToString)
// on skeleton packages whose Go types are native go/types objects; notation slots are chosen
// from the skeleton's menus, option toggles may additionally be symbolic.

import (
	"github.com/reedom/convergen/pkg/generator"
	gmodel "github.com/reedom/convergen/pkg/generator/model"
	"github.com/reedom/convergen/pkg/parser"
	"github.com/reedom/convergen/pkg/vrt"
)

// frontHalf runs the pipeline up to the function texts; returns the texts per method and the error.
func frontHalf(skeleton string) (texts []string, err error) {
	src := vrt.SkeletonPath(skeleton)
	p, err := parser.NewParser(src, src[:len(src)-3]+".gen.go")
	if err != nil {
		return nil, err
	}
	infos, err := p.Parse()
	if err != nil {
		return nil, err
	}
	b := p.CreateBuilder()
	g := generator.NewGenerator(gmodel.Code{})
	for _, info := range infos {
		fns, err := b.CreateFunctions(info.Methods)
		if err != nil {
			return nil, err
		}
		for _, f := range fns {
			texts = append(texts, g.FuncToString(f))
		}
	}
	return texts, nil
}

// T0Pipeline: smoke/validation harness - the pipeline runs on the basic skeleton for every slot
// choice; every emitted function parses.
func T0Pipeline() {
	texts, err := frontHalf("basic")
	if err != nil {
		vrt.Observe("error", err.Error())
		vrt.Reach("rejected")
		return
	}
	for _, t := range texts {
		vrt.Observe("func", t)
		v := vrt.ParsesAsFunc(t)
		vrt.AssertMsg("emitted-function-parses", v == "", v)
	}
	vrt.Reach("end")
}
