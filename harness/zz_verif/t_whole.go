//go:build verif

package zz_verif

// Mode T harness for C11 (and C03/C13): the REAL runner.Run (dry run) on the skeleton `whole`,
// a setup file with imports, a go:generate line, declarations with doc / trailing / block / body
// comments, an ORDINARY interface whose comments look like notations, and up to three converter
// interfaces (one of them possibly without methods). The text handed to the import optimiser is
// compared, clause by clause, with what C11 states.

import (
	"strings"

	"github.com/reedom/convergen/pkg/config"
	"github.com/reedom/convergen/pkg/runner"
	"github.com/reedom/convergen/pkg/vrt"
)

func commentBlock(text, indent string) string {
	if text == "" {
		return ""
	}
	var sb strings.Builder
	for _, l := range strings.Split(text, "\n") {
		sb.WriteString(indent + "// " + l + "\n")
	}
	return sb.String()
}

func docBlock(text string) string {
	ls := docLines(text)
	if len(ls) == 0 {
		return ""
	}
	return strings.Join(ls, "\n") + "\n"
}

// wantFunc is the text of the function generated for a two-field copy S{A,B} -> D{A,B}.
func wantFunc(name, srcT, dstT string, argStyle, skipA, skipB bool) string {
	line := func(f string, skip bool) string {
		if skip {
			return "\t// skip: dst." + f + "\n"
		}
		return "\tdst." + f + " = src." + f + "\n"
	}
	body := line("A", skipA) + line("B", skipB)
	if argStyle {
		return "func " + name + "(dst *" + dstT + ", src *" + srcT + ") {\n" + body + "}\n"
	}
	return "func " + name + "(src *" + srcT + ") (dst *" + dstT + ") {\n\tdst = &" + dstT + "{}\n" + body + "\n\treturn\n}\n"
}

func C11WholeFile() {
	src := vrt.SkeletonPath("whole")
	// the import optimiser and the formatter are environment: they succeed
	vrt.Assume(!vrt.Bool("imports.err"))
	vrt.Assume(!vrt.Bool("format.err"))
	i1, m1 := vrt.SlotText("whole", "I1"), vrt.SlotText("whole", "M1")
	e1, i2, m3 := vrt.SlotText("whole", "E1"), vrt.SlotText("whole", "I2"), vrt.SlotText("whole", "M3")
	conf := config.Config{Input: src, Output: src[:len(src)-3] + ".gen.go", DryRun: true}
	var err error
	content := ""
	if vrt.Symbolic() {
		// the import optimiser and the formatter are environment: the text handed to the
		// optimiser is the observation (formatted by the harness, as the last stage would)
		before := vrt.EffectCount()
		err = runner.Run(conf)
		for i := before; i < vrt.EffectCount(); i++ {
			if vrt.EffectOp(i) == "imports.Process" {
				content = vrt.EffectStr(i, 1)
			}
		}
	} else {
		// native replay: the whole real pipeline, -print output captured
		conf.Prints = true
		content = vrt.CaptureStdout(func() { err = runner.Run(conf) })
	}
	msg := ""
	if err != nil {
		msg = err.Error()
	}
	vrt.AssertMsg("well-formed-file-accepted", err == nil, msg)
	if err != nil {
		return
	}
	perr := vrt.ParsesAsFile(content)
	vrt.AssertMsg("output-is-a-go-file", perr == "", perr)
	content = vrt.Gofmt(content)
	vrt.Observe("content", content)

	once := func(what, s string) {
		vrt.AssertMsg(what, strings.Count(content, s) == 1, s)
	}
	absent := func(what, s string) {
		vrt.AssertMsg(what, !strings.Contains(content, s), s)
	}
	// ---- everything outside the converter interfaces, with its comments, unchanged
	once("package-comment-kept", "// Package whole carries a package comment that must survive.\npackage whole\n")
	once("imports-kept", "import (\n\t\"fmt\"\n\t\"strings\"\n)\n")
	once("declaration-with-comments-kept", "// Before has its own comment before the interfaces.\nvar Before = strings.ToUpper(\"x\") // trailing comment of Before\n")
	once("prose-next-to-a-directive-kept", "// Mixed keeps its prose although a directive stands in the same comment.\n")
	once("declaration-after-a-mixed-comment-kept", "\nvar Mixed = 2\n")
	once("ordinary-interface-kept-with-every-comment-line", "// Repo is an ordinary interface, not a converter.\n// :nodoc:\n// :deprecated use Store instead\ntype Repo interface {\n\t// Get fetches; 100% ordinary.\n\t// :map is no notation here\n\tGet(id int) *Src\n}\n")
	once("function-with-comments-kept", "// Middle sits between the converter interfaces.\nfunc Middle() string {\n\t// a comment inside a function body\n\treturn fmt.Sprint(Before)\n}\n")
	once("block-and-field-comments-kept", "/* Trailing has a block comment. */\ntype Trailing struct {\n\tX int // field comment\n}\n")
	// ---- directives and the build constraint are gone
	absent("no-go-generate", "go:generate")
	absent("no-build-constraint", "go:build")
	absent("no-build-constraint", "+build")
	// ---- converter interface Convergen: replaced in place by its functions
	absent("converter-interface-removed", "Convergen")
	// (interface-level notations reach every method of THAT interface, method-level ones their own method only)
	argA := hasNotation(i1, ":style arg")
	once("function-with-forwarded-doc", "\n\n"+docBlock(m1)+wantFunc("First", "Src", "Dst", argA, hasNotation(m1, ":skip A"), false))
	once("function-without-doc", "\n\n"+wantFunc("Second", "Src", "Dst", argA, false, false))
	for _, l := range strings.Split(i1+"\n"+m1, "\n") {
		if strings.HasPrefix(l, ":") {
			absent("notation-line-removed", "// "+l+"\n")
		}
	}
	if i1 != "" {
		absent("converter-doc-removed", "Convergen converts things.")
	}
	// ---- Empty: a converter without methods leaves nothing; an ordinary interface stays
	if hasNotation(e1, ":convergen") {
		absent("methodless-converter-removed", "Empty")
	} else {
		once("ordinary-empty-interface-kept", commentBlock(e1, "")+"type Empty interface{}\n")
	}
	// ---- Other: converter or ordinary, by its own doc comment
	if hasNotation(i2, ":convergen") {
		absent("second-converter-removed", "type Other")
		absent("second-converter-doc-removed", "Other converts back.")
		once("second-converter-function", "\n\n"+docBlock(m3)+wantFunc("Third", "Dst", "Src", hasNotation(i2, ":style arg"), false, hasNotation(m3, ":skip B")))
		absent("notation-line-removed", "// :skip B\n")
		absent("notation-line-removed", "// :stringer\n")
		absent("notation-line-removed", "// :style arg\n")
	} else {
		once("ordinary-interface-kept-with-method-comments", commentBlock(i2, "")+"type Other interface {\n"+commentBlock(m3, "\t")+"\tThird(*Dst) *Src\n}\n")
		absent("no-function-for-ordinary-interface", "func Third(")
	}
	// ---- in place: the order of the surrounding declarations and the functions is the source order
	order := []string{"package whole", "import (", "var Before", "var Mixed", "type Repo interface", "func First(", "func Second(", "func Middle(", "Third(", "type Trailing struct"}
	last := -1
	for _, o := range order {
		at := strings.Index(content, o)
		vrt.AssertMsg("declarations-and-functions-in-source-order", at > last, o)
		last = at
	}
	vrt.Reach("end")
}
