//go:build verif

package zz_verif

// Mode K harness on the REAL logger package (every other harness summarises it): what the tool
// says on standard error passes through these few functions, so C05's "each no match is reported
// as a warning on stderr carrying the file:line position" and C14's "message on stderr" hold only
// if they deliver the message as it was formatted, once, whatever the position text contains and
// whether or not -log redirects the trace.

import (
	"strings"

	"github.com/reedom/convergen/pkg/logger"
	"github.com/reedom/convergen/pkg/vrt"
)

// positions as they come out of token.Position.String() for setup files in directories whose
// names hold a percent sign, a colon, a blank - all legal in file names
var loggerPositions = []string{
	"/w/setup.go:18:2",
	"/w/my%20project/setup.go:18:2",
	"/w/load 100%done/setup.go:7:2",
	"/w/work:2024/a%sb%dc%v/setup.go:3:1",
	"/w/100%/setup.go:3:1",
}

func C05Logger() {
	vrt.SetEnv("logger", "real")
	mode := vrt.Choose("logmode", 3)
	pos := loggerPositions[vrt.Choose("position", len(loggerPositions))]
	name := []string{"dst.Name", "dst.Rate%", "dst.In.Z"}[vrt.Choose("field", 3)]
	var trace strings.Builder
	switch mode {
	case 0: // no -log: the trace is discarded
		logger.SetupLogger()
	case 1: // -log: the trace goes to the log file (runner.Run: Enable + Output)
		logger.SetupLogger(logger.Enable(), logger.Output(&trace))
	case 2: // set up twice (a run after a run in one process, as the tests do)
		logger.SetupLogger(logger.Enable(), logger.Output(&trace))
		logger.SetupLogger()
	}
	wantWarn := pos + ": no assignment for " + name + " [string]\n"
	got := vrt.CaptureStderr(func() { logger.Warnf("%v: no assignment for %v [%v]", pos, name, "string") })
	vrt.AssertMsg("warning-on-stderr-as-formatted-once", got == wantWarn, got)
	var err error
	wantErr := pos + ": function " + name + " not found"
	got = vrt.CaptureStderr(func() { err = logger.Errorf("%v: function %v not found", pos, name) })
	vrt.AssertMsg("error-on-stderr-as-formatted-once", got == wantErr+"\n", got)
	vrt.AssertMsg("error-value-carries-the-message", err != nil && err.Error() == wantErr, got)
	got = vrt.CaptureStderr(func() { logger.Printf("%v: lookup %v", pos, name) })
	vrt.AssertMsg("trace-never-on-stderr", got == "", got)
	if mode == 1 {
		t := trace.String()
		vrt.AssertMsg("log-file-holds-warning-error-and-trace",
			strings.Contains(t, wantWarn) && strings.Contains(t, wantErr+"\n") && strings.Contains(t, pos+": lookup "+name+"\n"), t)
	}
	vrt.Reach("end")
}
