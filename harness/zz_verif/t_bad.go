//go:build verif

package zz_verif

// Mode T harnesses for robustness against bad input (C14) and hook acceptance (C10).

import (
	"strings"

	"github.com/reedom/convergen/pkg/parser"
	"github.com/reedom/convergen/pkg/vrt"
)

// positioned reports whether some line of the captured standard error starts with
// <setup file>:<line>:<column>.
func positioned(stderr, setup string) bool {
	for _, line := range strings.Split(stderr, "\n") {
		if strings.HasPrefix(line, setup+":") {
			rest := line[len(setup)+1:]
			if len(rest) > 0 && rest[0] >= '0' && rest[0] <= '9' {
				return true
			}
		}
	}
	return false
}

func badHarness(skeleton string, nMethods int) (rejected bool) {
	var texts []string
	var err error
	stderr := vrt.CaptureStderr(func() { texts, err = frontHalf(skeleton) })
	vrt.Observe("stderr", stderr)
	if err != nil {
		vrt.Observe("error", err.Error())
		vrt.AssertMsg("rejection-has-positioned-diagnostic", positioned(stderr, vrt.SkeletonPath(skeleton)), stderr)
		vrt.Reach("rejected")
		return true
	}
	vrt.Assert("no-method-dropped", len(texts) == nMethods)
	all := ""
	for _, t := range texts {
		vrt.Observe("func", t)
		if vrt.ParsesAsFunc(t) != "" {
			// e.g. a :literal that is no Go expression: the run is rejected by the formatter
			// (Generate: format.Source), which is a non-zero exit with a message
			vrt.Reach("rejected-by-formatter")
			return true
		}
		all += t
	}
	v := vrt.TypeCheckFuncs(skeleton, all)
	vrt.AssertMsg("emitted-functions-type-check", v == "", v)
	vrt.Reach("accepted")
	return false
}

// C14BadNotation: for every (mal)formed notation of the menu on a method or on the interface the
// front half neither panics nor drops a method: it either succeeds with one function per method
// (which parse and type-check) or fails with a diagnostic starting with file:line:column.
// Shapes that the README documents as unusable must be REJECTED at generation time (C10: "hooks
// whose parameter or error shape cannot fit the method are rejected"; ":conv" needs a function of
// one parameter returning a value and optionally an error), and the documented-good ones accepted.
var mustReject = []string{
	":preprocess NoSuch", ":preprocess NotFunc", ":preprocess HookZeroArg", ":preprocess HookOneArg", ":preprocess HookRetInt",
	":preprocess HookTwoRet", ":preprocess HookWrongDst", ":preprocess HookWrongSrc", ":preprocess HookExtra", ":preprocess ext.hidden",
	":preprocess ext.NoSuch", ":postprocess HookOneArg", ":postprocess HookZeroArg", ":postprocess NoSuch",
	":conv NoSuch Name", ":conv NotFunc Name", ":conv AType Name", ":conv TwoArgs Name", ":conv NoArg Name", ":conv NoRet Name",
	":conv ThreeRet Name", ":conv TwoRetNoErr Name", ":conv ext.NoSuch Name", ":conv ext.hidden Name", ":conv nopkg.F Name",
	":style", ":style foo", ":match", ":match x", ":recv", ":recv 1x", ":recv r-x", ":skip", ":skip /[/", ":skip /(/", ":map", ":map Name",
	":conv", ":conv Good", ":literal", ":literal Name", ":preprocess", ":postprocess", ":reverse",
}

var mustAccept = []string{
	"", ":style arg", ":match tag", ":recv s", ":skip Name", ":skip /Na.*/", ":conv Good Name", ":conv GoodErr Name", ":conv ext.Norm Name",
	":literal Name \"x\"", ":preprocess HookGood", ":preprocess HookNoErr", ":preprocess HookVal", ":postprocess HookGood",
	":reverse\n:style arg", ":unknown foo", ":typecast extra args", ":map Nope ID", ":conv Good Nope",
}

func inList(l []string, s string) bool {
	for _, x := range l {
		if x == s {
			return true
		}
	}
	return false
}

func C14BadNotation() {
	n1, i1 := vrt.SlotText("bad", "N1"), vrt.SlotText("bad", "I1")

	vrt.SlotText("bad", "N2")
	vrt.SlotText("bad", "M1")
	// interface-level and method-level candidates are explored separately
	vrt.Assume(n1 == "" || i1 == "")
	rejected := badHarness("bad", 3)
	// a malformed interface-level notation fails the run (whatever other converter interfaces the file has)
	if i1 == ":style" || i1 == ":style foo" || i1 == ":match x" {
		vrt.AssertMsg("malformed-interface-notation-is-rejected", rejected, i1)
	}
	if i1 == "" && vrt.SlotText("bad", "M1") == "" {
		if inList(mustReject, n1) && !(n1 == ":reverse" && vrt.SlotText("bad", "N2") == ":style arg") {
			vrt.AssertMsg("documented-unusable-shape-is-rejected", rejected, n1)
		}
		if inList(mustAccept, n1) {
			vrt.AssertMsg("documented-usable-notation-is-accepted", !rejected, n1)
		}
	}
}

// C14OutIsInput: -out naming the input file itself is rejected with a diagnostic (the loader hook
// withholds the file; no nil dereference).
func C14OutIsInput() {
	src := vrt.SkeletonPath("basic")
	var err error
	stderr := vrt.CaptureStderr(func() { _, err = parser.NewParser(src, src) })
	vrt.Assert("rejected", err != nil)
	vrt.AssertMsg("diagnostic-names-the-file", strings.Contains(stderr, src), stderr)
	vrt.Reach("end")
}

// C06CrossConv: a :conv target may be another function being generated in the same run, also from
// another converter interface of the file, whatever the interfaces' names sort like.
func C06CrossConv() {
	var texts []string
	var err error
	stderr := vrt.CaptureStderr(func() { texts, err = frontHalf("xconv") })
	vrt.SlotText("xconv", "S1")
	vrt.AssertMsg("well-formed-file-accepted", err == nil && len(texts) == 6, stderr)
	if err != nil {
		return
	}
	all := ""
	usesToB, usesLocal := false, false
	for _, t := range texts {
		all += t
		if strings.Contains(t, "dst.In = ToB(src.In)") {
			usesToB = true
		}
		if strings.Contains(t, "dst.In = Local(src.In)") {
			usesLocal = true
		}
	}
	vrt.Assert("generated-converters-are-used", usesToB && usesLocal)
	v := vrt.TypeCheckFuncs("xconv", all)
	vrt.AssertMsg("emitted-functions-type-check", v == "", v)
	vrt.Reach("end")
}
