//go:build verif

package zz_verif

// Mode T harnesses for robustness against bad input (C14) and hook acceptance (C10).

import (
	"strings"

	"github.com/reedom/convergen/pkg/parser"
	"github.com/reedom/convergen/pkg/vrt"
)

// positioned reports whether some line of the captured standard error starts with
// <setup file>:<line>:<column>.
func positioned(stderr, setup string) bool {
	for _, line := range strings.Split(stderr, "\n") {
		if strings.HasPrefix(line, setup+":") {
			rest := line[len(setup)+1:]
			if len(rest) > 0 && rest[0] >= '0' && rest[0] <= '9' {
				return true
			}
		}
	}
	return false
}

func badHarness(skeleton string, nMethods int) (rejected bool) {
	var texts []string
	var err error
	before := vrt.EffectCount()
	stderr := vrt.CaptureStderr(func() { texts, err = frontHalf(skeleton) })
	vrt.Observe("stderr", stderr)
	if vrt.Symbolic() {
		// standard output is reserved for the generated code (-print): no diagnostic goes there
		for i := before; i < vrt.EffectCount(); i++ {
			vrt.AssertMsg("no-diagnostic-on-stdout", vrt.EffectOp(i) != "print:stdout", vrt.EffectStr(i, 0))
		}
	}
	if err != nil {
		vrt.Observe("error", err.Error())
		vrt.AssertMsg("rejection-has-positioned-diagnostic", positioned(stderr, vrt.SkeletonPath(skeleton)), stderr)
		vrt.Reach("rejected")
		return true
	}
	vrt.Assert("no-method-dropped", len(texts) == nMethods)
	all := ""
	for _, t := range texts {
		vrt.Observe("func", t)
		if vrt.ParsesAsFunc(t) != "" {
			// the emitted text is no Go: the run would only be rejected by the formatter
			// (Generate: format.Source), whose message does not name the offending notation
			vrt.AssertMsg("malformed-notation-rejected-before-the-formatter", false, t)
			vrt.Reach("rejected-by-formatter")
			return true
		}
		all += t
	}
	v := vrt.TypeCheckFuncs(skeleton, all)
	vrt.AssertMsg("emitted-functions-type-check", v == "", v)
	// an error-returning getter is never handed to a function as its argument list: f(g()) passes
	// g's error on as an ordinary argument (a variadic f accepts it), where nobody checks it
	vrt.AssertMsg("error-of-a-getter-is-never-passed-on-as-an-argument", !strings.Contains(all, "(src.NameErr())"), all)
	vrt.Reach("accepted")
	return false
}

// C14BadNotation: for every (mal)formed notation of the menu on a method or on the interface the
// front half neither panics nor drops a method: it either succeeds with one function per method
// (which parse and type-check) or fails with a diagnostic starting with file:line:column.
// Shapes that the README documents as unusable must be REJECTED at generation time (C10: "hooks
// whose parameter or error shape cannot fit the method are rejected"; ":conv" needs a function of
// one parameter returning a value and optionally an error), and the documented-good ones accepted.
var mustReject = []string{
	":preprocess NoSuch", ":preprocess NotFunc", ":preprocess HookZeroArg", ":preprocess HookOneArg", ":preprocess HookRetInt",
	":preprocess HookTwoRet", ":preprocess HookWrongDst", ":preprocess HookWrongSrc", ":preprocess HookExtra", ":preprocess ext.hidden",
	":preprocess ext.NoSuch", ":postprocess HookOneArg", ":postprocess HookZeroArg", ":postprocess NoSuch",
	":conv NoSuch Name", ":conv NotFunc Name", ":conv AType Name", ":conv TwoArgs Name", ":conv NoArg Name", ":conv NoRet Name",
	":conv ThreeRet Name", ":conv TwoRetNoErr Name", ":conv ext.NoSuch Name", ":conv ext.hidden Name", ":conv nopkg.F Name",
	":style", ":style foo", ":match", ":match x", ":recv", ":recv 1x", ":recv r-x", ":skip", ":skip /[/", ":skip /(/", ":map", ":map Name",
	":conv", ":conv Good", ":literal", ":literal Name", ":preprocess", ":postprocess", ":reverse",
	":conv v2.Norm Name", ":conv TypedErr Name", ":preprocess HookTypedErr", ":postprocess HookTypedErr", ":recv func", ":recv range", ":literal Name )(", ":literal Name \"oops", ":literal Name \"a\" +",
}

var mustAccept = []string{
	"", ":style arg", ":match tag", ":recv s", ":skip Name", ":skip /Na.*/", ":conv Good Name", ":conv GoodErr Name", ":conv ext.Norm Name",
	":literal Name \"x\"", ":preprocess HookGood", ":preprocess HookNoErr", ":preprocess HookVal", ":postprocess HookGood",
	":conv lib.Norm Name", ":tag json", ":reverse\n:style arg", ":unknown foo", ":typecast extra args", ":map Nope ID", ":conv Good Nope",
}

func inList(l []string, s string) bool {
	for _, x := range l {
		if x == s {
			return true
		}
	}
	return false
}

func C14BadNotation() {
	// The slots are explored in four families (each slot outside the family stays empty); the
	// restriction is stated right after each slot is chosen, so that no infeasible product is walked.
	focus := vrt.Choose("focus", 4) // 0: method notation, 1: interface notation, 2: hooks H1/H2, 3: hook H3
	slot := func(name string, free bool) string {
		t := vrt.SlotText("bad", name)
		if !free {
			vrt.Assume(t == "")
		}
		return t
	}
	i1 := slot("I1", focus == 1)
	n1 := slot("N1", focus == 0)
	slot("N2", focus <= 1)
	m1 := slot("M1", focus <= 1)
	h1, h2, h3 := slot("H1", focus == 2), slot("H2", focus == 2), slot("H3", focus == 3)
	rejected := badHarness("bad", 7)
	// a hook that returns an error cannot fit a method without error result (Other has none)
	if n1 == "" && i1 == "" && h1 == "" && h2 == "" && h3 == "" && (m1 == ":preprocess HookGood" || m1 == ":postprocess HookGood") {
		vrt.AssertMsg("error-returning-hook-on-a-method-without-error-rejected", rejected, m1)
	}
	if n1 == "" && i1 == "" && m1 == "" && h1 == "" && h2 == "" && h3 != "" && vrt.SlotText("bad", "N2") == "" {
		// a pointer argument is passed on as it is: it fits a pointer parameter, not a value parameter
		vrt.AssertMsg("hook-with-additional-arguments-accepted-iff-it-fits", rejected == (h3 != ":preprocess HookOptPtr"), h3)
	}
	if n1 == "" && i1 == "" && vrt.SlotText("bad", "M1") == "" && vrt.SlotText("bad", "N2") == "" {
		// a hook fits when every operand the method passes is assignable to its parameter
		fits := map[string]bool{":preprocess HookExact": true, ":preprocess HookWide": true, ":postprocess HookWide": true,
			":preprocess HookNarrow": false, ":preprocess HookN": false}
		if want, ok := fits[h1]; ok && h2 == "" {
			vrt.AssertMsg("hook-with-additional-arguments-accepted-iff-it-fits", rejected == !want, h1)
		}
		if h1 == "" && h2 != "" {
			vrt.AssertMsg("hook-on-a-method-with-a-blank-argument-accepted", !rejected, h2)
		}
	}
	// a malformed interface-level notation fails the run (whatever other converter interfaces the file has)
	if i1 == ":style" || i1 == ":style foo" || i1 == ":match x" {
		vrt.AssertMsg("malformed-interface-notation-is-rejected", rejected, i1)
	}
	if i1 == "" && m1 == "" && h1 == "" && h2 == "" && h3 == "" {
		if inList(mustReject, n1) && !(n1 == ":reverse" && vrt.SlotText("bad", "N2") == ":style arg") {
			vrt.AssertMsg("documented-unusable-shape-is-rejected", rejected, n1)
		}
		if inList(mustAccept, n1) {
			vrt.AssertMsg("documented-usable-notation-is-accepted", !rejected, n1)
		}
	}
}

// C14OutIsInput: -out naming the input file itself is rejected with a diagnostic (the loader hook
// withholds the file; no nil dereference).
func C14OutIsInput() {
	src := vrt.SkeletonPath("basic")
	var err error
	stderr := vrt.CaptureStderr(func() { _, err = parser.NewParser(src, src) })
	vrt.Assert("rejected", err != nil)
	vrt.AssertMsg("diagnostic-names-the-file", strings.Contains(stderr, src), stderr)
	vrt.Reach("end")
}

// C06CrossConv: a :conv target may be another function being generated in the same run, also from
// another converter interface of the file, whatever the interfaces' names sort like.
func C06CrossConv() {
	var texts []string
	var err error
	stderr := vrt.CaptureStderr(func() { texts, err = frontHalf("xconv") })
	s1, s2 := vrt.SlotText("xconv", "S1"), vrt.SlotText("xconv", "S2")
	if s2 == ":conv WithN In" || (s2 == ":conv ToBErr In" && s1 == ":style arg") {
		// a to-be-generated function that takes an additional argument, or is generated in arg
		// style, cannot be called as a converter: refused with a positioned diagnostic
		vrt.AssertMsg("unusable-generated-converter-rejected", err != nil && positioned(stderr, vrt.SkeletonPath("xconv")), stderr)
		vrt.Reach("rejected")
		return
	}
	vrt.AssertMsg("well-formed-file-accepted", err == nil && len(texts) == 8, stderr)
	if err != nil {
		return
	}
	all := ""
	usesToB, usesLocal := false, false
	for _, t := range texts {
		all += t
		if strings.Contains(t, "dst.In = ToB(src.In)") {
			usesToB = true
		}
		if strings.Contains(t, "dst.In = Local(src.In)") {
			usesLocal = true
		}
	}
	vrt.Assert("generated-converters-are-used", usesToB && usesLocal)
	v := vrt.TypeCheckFuncs("xconv", all)
	vrt.AssertMsg("emitted-functions-type-check", v == "", v)
	vrt.Reach("end")
}

// C14TypeErrors: a setup file whose converter interface has a type error (here: a duplicate method,
// which go/types leaves out of the interface) is rejected with a positioned diagnostic - never
// "success" with a method missing. (A type error elsewhere in the file is not the run's business.)
func C14TypeErrors() {
	var texts []string
	var err error
	stderr := vrt.CaptureStderr(func() { texts, err = frontHalf("dup") })
	vrt.SlotText("dup", "D1")
	vrt.AssertMsg("type-error-in-converter-interface-rejected", err != nil && len(texts) == 0, stderr)
	vrt.AssertMsg("rejection-has-positioned-diagnostic", positioned(stderr, vrt.SkeletonPath("dup")), stderr)
	vrt.Reach("end")
}

// C13BlankImport: a blank import of a package that has the NAME of a regularly imported one
// (`_ "…/side/lib"` next to `"…/lib/v2"`, package lib) does not make the qualifier lib ambiguous:
// under every iteration order of the import table ':conv lib.Norm Name' resolves, and the file is
// accepted with the converter in use.
func C13BlankImport() {
	var texts []string
	var err error
	stderr := vrt.CaptureStderr(func() { texts, err = frontHalf("blank") })
	vrt.SlotText("blank", "S1")
	vrt.AssertMsg("accepted-under-every-map-order", err == nil && len(texts) == 2, stderr)
	if err == nil && len(texts) == 2 {
		all := texts[0] + texts[1]
		vrt.AssertMsg("converter-of-the-named-import-used", strings.Contains(all, "dst.Name = lib.Norm(src.Name)"), all)
		vrt.AssertMsg("converter-of-the-blank-import-used", strings.Contains(all, "dst.Name = cryp.Up(src.Name)"), all)
	}
	vrt.Reach("end")
}

// C03DotImport: a setup file that dot-imports a helper package names its functions bare in a
// notation (there is no other spelling), and one that imports a package under another name uses
// that name: both are accepted, the emitted calls are spelled the way the setup file can write
// them (the type checker is the judge), converters and hook are in use.
func C03DotImport() {
	var texts []string
	var err error
	stderr := vrt.CaptureStderr(func() { texts, err = frontHalf("dot") })
	vrt.SlotText("dot", "S1")
	vrt.AssertMsg("well-formed-file-accepted", err == nil && len(texts) == 3, stderr)
	if err != nil || len(texts) != 3 {
		return
	}
	all := texts[0] + texts[1] + texts[2]
	vrt.AssertMsg("converter-of-the-dot-import-used", strings.Contains(all, "dst.Name = Norm(src.Name)"), all)
	vrt.AssertMsg("local-converter-used", strings.Contains(all, "dst.Name = Local(src.Name)"), all)
	vrt.AssertMsg("converter-of-the-renamed-import-used", strings.Contains(all, "dst.Name = pets.Norm(src.Name)"), all)
	vrt.AssertMsg("hook-of-the-renamed-import-called", strings.Contains(all, "pets.PostPet(dst, src)"), all)
	v := vrt.TypeCheckFuncs("dot", all)
	vrt.AssertMsg("emitted-functions-type-check", v == "", v)
	vrt.Reach("end")
}

// C14OddPath: the same file as C14TypeErrors, in a module whose directory name holds a colon, a
// blank and a percent sign (all legal in directory names; positions are spelled file:line:column,
// so the file name itself contains colons): the type error inside the converter interface is
// still found, the run is rejected with a diagnostic that starts with the file's position.
func C14OddPath() {
	const sk = "odd/w:1 %d/dup"
	var texts []string
	var err error
	stderr := vrt.CaptureStderr(func() { texts, err = frontHalf(sk) })
	vrt.SlotText(sk, "D1")
	vrt.AssertMsg("type-error-in-converter-interface-rejected", err != nil && len(texts) == 0, stderr)
	vrt.AssertMsg("rejection-has-positioned-diagnostic", positioned(stderr, vrt.SkeletonPath(sk)), stderr)
	vrt.Reach("end")
}
