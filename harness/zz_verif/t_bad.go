//go:build verif

package zz_verif

// Mode T harnesses for robustness against bad input (C14) and hook acceptance (C10).

import (
	"strings"

	"github.com/reedom/convergen/pkg/parser"
	"github.com/reedom/convergen/pkg/vrt"
)

// positioned reports whether some line of the captured standard error starts with
// <setup file>:<line>:<column>.
func positioned(stderr, setup string) bool {
	for _, line := range strings.Split(stderr, "\n") {
		if strings.HasPrefix(line, setup+":") {
			rest := line[len(setup)+1:]
			if len(rest) > 0 && rest[0] >= '0' && rest[0] <= '9' {
				return true
			}
		}
	}
	return false
}

func badHarness(skeleton string, nMethods int) {
	var texts []string
	var err error
	stderr := vrt.CaptureStderr(func() { texts, err = frontHalf(skeleton) })
	vrt.Observe("stderr", stderr)
	if err != nil {
		vrt.Observe("error", err.Error())
		vrt.AssertMsg("rejection-has-positioned-diagnostic", positioned(stderr, vrt.SkeletonPath(skeleton)), stderr)
		vrt.Reach("rejected")
		return
	}
	vrt.Assert("no-method-dropped", len(texts) == nMethods)
	all := ""
	for _, t := range texts {
		vrt.Observe("func", t)
		if vrt.ParsesAsFunc(t) != "" {
			// e.g. a :literal that is no Go expression: the run is rejected by the formatter
			// (Generate: format.Source), which is a non-zero exit with a message
			vrt.Reach("rejected-by-formatter")
			return
		}
		all += t
	}
	v := vrt.TypeCheckFuncs(skeleton, all)
	vrt.AssertMsg("emitted-functions-type-check", v == "", v)
	vrt.Reach("accepted")
}

// C14BadNotation: for every (mal)formed notation of the menu on a method or on the interface the
// front half neither panics nor drops a method: it either succeeds with one function per method
// (which parse and type-check) or fails with a diagnostic starting with file:line:column.
func C14BadNotation() {
	n1, i1 := vrt.SlotText("bad", "N1"), vrt.SlotText("bad", "I1")
	vrt.SlotText("bad", "N2")
	vrt.SlotText("bad", "M1")
	// interface-level and method-level candidates are explored separately
	vrt.Assume(n1 == "" || i1 == "")
	badHarness("bad", 2)
}

// C14OutIsInput: -out naming the input file itself is rejected with a diagnostic (the loader hook
// withholds the file; no nil dereference).
func C14OutIsInput() {
	src := vrt.SkeletonPath("basic")
	var err error
	stderr := vrt.CaptureStderr(func() { _, err = parser.NewParser(src, src) })
	vrt.Assert("rejected", err != nil)
	vrt.AssertMsg("diagnostic-names-the-file", strings.Contains(stderr, src), stderr)
	vrt.Reach("end")
}

// C06CrossConv: a :conv target may be another function being generated in the same run, also from
// another converter interface of the file, whatever the interfaces' names sort like.
func C06CrossConv() {
	var texts []string
	var err error
	stderr := vrt.CaptureStderr(func() { texts, err = frontHalf("xconv") })
	vrt.SlotText("xconv", "S1")
	vrt.AssertMsg("well-formed-file-accepted", err == nil && len(texts) == 5, stderr)
	if err != nil {
		return
	}
	all := ""
	usesToB, usesLocal := false, false
	for _, t := range texts {
		all += t
		if strings.Contains(t, "dst.In = ToB(src.In)") {
			usesToB = true
		}
		if strings.Contains(t, "dst.In = Local(src.In)") {
			usesLocal = true
		}
	}
	vrt.Assert("generated-converters-are-used", usesToB && usesLocal)
	v := vrt.TypeCheckFuncs("xconv", all)
	vrt.AssertMsg("emitted-functions-type-check", v == "", v)
	vrt.Reach("end")
}
