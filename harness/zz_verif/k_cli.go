//go:build verif

package zz_verif

// Mode K harnesses for the command-line contract (C18) and the write discipline (C15):
// config.ParseArgs, generator.Generate and runner.Run executed for real with flag/os/formatter
// stubbed symbolically.

import (
	"flag"
	"os"
	"path/filepath"
	"strings"

	"github.com/reedom/convergen/pkg/config"
	"github.com/reedom/convergen/pkg/generator"
	gmodel "github.com/reedom/convergen/pkg/generator/model"
	"github.com/reedom/convergen/pkg/runner"
	"github.com/reedom/convergen/pkg/vrt"
)

// refExt is the reference definition of a path's extension: the suffix starting at the last
// "." of the last "/"-separated element, or "" when that element has no ".". Stated with
// LastIndex (declarative in the encoding), not with path.Ext's byte loop.
func refExt(p string) string {
	i := strings.LastIndex(p, "/")
	tail := p[i+1:]
	j := strings.LastIndex(tail, ".")
	if j < 0 {
		return ""
	}
	return tail[j:]
}

// pathLen: bound on the length of path strings (quick 10, thorough 12).
var pathLen = func() int {
	if vrt.Thorough() {
		return 12
	}
	return 10
}()

// runParseArgs calls the real ParseArgs. Under the symbolic executor flag.* and os.Getenv are
// stubs fed by vrt.SetEnv; natively (replay) the same values are installed into the real flag
// package and environment first.
func runParseArgs(c *config.Config) error {
	if !vrt.Symbolic() {
		args := []string{"convergen"}
		if v, ok := vrt.GetEnv("flag:out"); ok && v.(string) != "" {
			args = append(args, "-out", v.(string))
		}
		for _, f := range []string{"log", "dry", "print"} {
			if v, ok := vrt.GetEnv("flag:" + f); ok && v.(bool) {
				args = append(args, "-"+f)
			}
		}
		if v, ok := vrt.GetEnv("arg:0"); ok && v.(string) != "" {
			args = append(args, "--", v.(string))
		}
		flag.CommandLine = flag.NewFlagSet(args[0], flag.ContinueOnError)
		os.Args = args
		gf, _ := vrt.GetEnv("env:GOFILE")
		s, _ := gf.(string)
		os.Setenv("GOFILE", s)
	}
	return c.ParseArgs()
}

// C18ParseArgs: Input = positional argument, else GOFILE; Output = -out, else Input with ".gen"
// inserted before its extension; Log = Output with its extension replaced by ".log" iff -log;
// DryRun/Prints copied.
func C18ParseArgs() {
	out := vrt.Bytes("flag.out", pathLen)
	logs := vrt.Bool("flag.log")
	dry := vrt.Bool("flag.dry")
	prints := vrt.Bool("flag.print")
	arg0 := vrt.Bytes("arg0", pathLen)
	gofile := vrt.Bytes("GOFILE", pathLen)
	vrt.SetEnv("flag:out", out)
	vrt.SetEnv("flag:log", logs)
	vrt.SetEnv("flag:dry", dry)
	vrt.SetEnv("flag:print", prints)
	vrt.SetEnv("arg:0", arg0)
	vrt.SetEnv("env:GOFILE", gofile)
	// without any input the tool prints the usage and exits 1 (separate harness)
	vrt.Assume(arg0 != "" || gofile != "")

	var c config.Config
	err := runParseArgs(&c)
	vrt.Assert("no-error", err == nil)

	wantInput := arg0
	if arg0 == "" {
		wantInput = gofile
	}
	vrt.Assert("input", c.Input == wantInput)
	if out != "" {
		vrt.Assert("out-flag-wins", c.Output == out)
	} else {
		ext := refExt(wantInput)
		want := wantInput[:len(wantInput)-len(ext)] + ".gen" + ext
		vrt.Assert("default-output", c.Output == want)
	}
	if logs {
		ext := refExt(c.Output)
		vrt.Assert("log-path", c.Log == c.Output[:len(c.Output)-len(ext)]+".log")
	} else {
		vrt.Assert("no-log", c.Log == "")
	}
	vrt.Assert("dry-copied", c.DryRun == dry)
	vrt.Assert("print-copied", c.Prints == prints)
	vrt.Reach("end")
}

// C18NoInput: neither a positional argument nor GOFILE => usage on stderr and exit status 1.
func C18NoInput() {
	vrt.SetEnv("flag:out", vrt.Bytes("flag.out", pathLen))
	vrt.SetEnv("flag:log", vrt.Bool("flag.log"))
	vrt.SetEnv("arg:0", "")
	vrt.SetEnv("env:GOFILE", "")
	vrt.SetEnv("expect-exit", 1)
	var c config.Config
	_ = runParseArgs(&c)
	vrt.Assert("must-exit", false) // not reached: os.Exit(1)
}

// countEffects returns how many recorded effects have the given operation.
func countEffects(op string) int {
	n := 0
	for i := 0; i < vrt.EffectCount(); i++ {
		if vrt.EffectOp(i) == op {
			n++
		}
	}
	return n
}

func lastEffect(op string) int {
	k := -1
	for i := 0; i < vrt.EffectCount(); i++ {
		if vrt.EffectOp(i) == op {
			k = i
		}
	}
	return k
}

// fsWrite is one replacement of a file's content observed in the effect trace: os.WriteFile, or
// the equivalent open - write - close through a handle. whole says that the file holds exactly
// `content` afterwards (WriteFile truncates; a handle must be opened with O_CREATE|O_TRUNC for
// writing and be written once).
type fsWrite struct {
	openAt, at, endAt int // effect indices: file touched first / content written / last effect of the write
	path, content     string
	mode              int
	whole             bool
}

// fsWrites collects the writes of the trace; effect `logAt` (or -1) is the log file's open and is not one.
func fsWrites(logAt int) (ws []fsWrite, stray int) {
	n := vrt.EffectCount()
	used := map[int]bool{}
	for i := 0; i < n; i++ {
		switch vrt.EffectOp(i) {
		case "WriteFile":
			ws = append(ws, fsWrite{openAt: i, at: i, endAt: i, path: vrt.EffectStr(i, 0), content: vrt.EffectStr(i, 1), mode: vrt.EffectInt(i, 2), whole: true})
			// os.WriteFile truncates the file and then writes: when it FAILS (half-way: a full disk,
			// a quota) the target is left torn, although a run that ends in an error must leave the
			// output path exactly as it was. Only a replacement by rename is all-or-nothing.
			vrt.Assert("a-failing-write-leaves-the-output-as-it-was", !vrt.Bool("WriteFile.err"))
		case "OpenFile":
			if i == logAt {
				continue
			}
			w := fsWrite{openAt: i, at: i, endAt: i, path: vrt.EffectStr(i, 0), mode: vrt.EffectInt(i, 2)}
			flags := vrt.EffectInt(i, 1)
			writes := 0
			for j := i + 1; j < n; j++ {
				op := vrt.EffectOp(j)
				if (op == "FileWrite" || op == "FileClose") && !used[j] && vrt.EffectStr(j, 0) == w.path {
					used[j] = true
					w.endAt = j
					if op == "FileClose" {
						break
					}
					writes++
					w.at = j
					w.content = vrt.EffectStr(j, 1)
				}
			}
			const oWronly, oRdwr, oCreate, oTrunc = 0x1, 0x2, 0x40, 0x200
			w.whole = writes == 1 && flags&(oWronly|oRdwr) != 0 && flags&oCreate != 0 && flags&oTrunc != 0
			ws = append(ws, w)
		case "CreateTemp":
			// the atomic form: a temporary file NEXT TO the target is written, closed, given its
			// mode and then renamed over the target; a failure on the way removes it again
			name := vrt.EffectStr(i, 2)
			if name == "" {
				continue // could not be created: nothing happened
			}
			w := fsWrite{openAt: -1, at: -1, endAt: i}
			writes, closed, renamed, removed := 0, false, false, false
			for j := i + 1; j < n; j++ {
				op := vrt.EffectOp(j)
				if used[j] || (op != "FileWrite" && op != "FileClose" && op != "Chmod" && op != "Rename" && op != "Remove") || vrt.EffectStr(j, 0) != name {
					continue
				}
				used[j] = true
				w.endAt = j
				switch op {
				case "FileWrite":
					writes++
					w.content = vrt.EffectStr(j, 1)
				case "FileClose":
					closed = true
				case "Chmod":
					w.mode = vrt.EffectInt(j, 1)
				case "Rename":
					renamed = true
					w.openAt, w.at = j, j // the target is touched here, and only here
					w.path = vrt.EffectStr(j, 1)
					w.whole = writes == 1 && closed
				case "Remove":
					removed = true
				}
			}
			vrt.Assert("temporary-file-next-to-the-target", !renamed || vrt.EffectStr(i, 0) == filepath.Dir(w.path))
			// nothing is left behind: the temporary file became the target, or was removed
			vrt.Assert("temporary-file-renamed-or-removed", (renamed && !vrt.Bool("Rename.err")) || removed)
			if renamed {
				ws = append(ws, w)
			}
		case "FileWrite", "FileClose", "Chmod", "Rename", "Remove":
			if !used[i] {
				stray++
			}
		}
	}
	return ws, stray
}

// stagesAfter counts the pipeline effects (stage summaries, import optimiser, formatter) recorded after index i.
func stagesAfter(i int) int {
	k := 0
	for j := i + 1; j < vrt.EffectCount(); j++ {
		op := vrt.EffectOp(j)
		if strings.HasPrefix(op, "stage:") || op == "imports.Process" || op == "format.Source" {
			k++
		}
	}
	return k
}

// C18Generate: whenever Generate succeeds with output=true, stdout received exactly the returned
// bytes (both with and without dry-run); the file, when written, received the same bytes - as its
// WHOLE content; no file is touched under dry-run or before both formatters succeeded; a failing
// write is reported.
func C18Generate() {
	if !vrt.Symbolic() {
		return // environment-stub harness: no native replay
	}
	base := vrt.String("base", 30)
	outPath := vrt.String("outPath", pathLen)
	output := vrt.Bool("print")
	dry := vrt.Bool("dry")
	vrt.SetEnv("stdout.faulty", true)
	g := generator.NewGenerator(gmodel.Code{BaseCode: base})
	res, err := g.Generate(outPath, output, dry)

	// the import optimiser reads the sibling files of the file it is told about and leaves exactly
	// that file out: told the output path, it never sees what an earlier run left there
	if k := lastEffect("imports.Process"); k >= 0 {
		vrt.Assert("import-optimiser-is-told-the-output-path", vrt.EffectStr(k, 0) == outPath)
	}
	ws, stray := fsWrites(-1)
	nWrite := len(ws)
	nPrint := countEffects("print:stdout")
	vrt.Assert("no-stray-handle-write", stray == 0)
	vrt.Assert("at-most-one-write", nWrite <= 1)
	if dry {
		vrt.Assert("dry-never-writes", nWrite == 0)
	}
	for _, w := range ws {
		// the output path is touched only after both formatters succeeded
		vrt.Assert("write-after-format", countEffects("imports.Process") == 1 && countEffects("format.Source") == 1 && stagesAfter(w.openAt) == 0)
		vrt.Assert("write-path", w.path == outPath)
		vrt.Assert("write-mode", w.mode == 0644)
		vrt.Assert("write-replaces-the-whole-file", w.whole)
	}
	if err != nil && nWrite == 1 {
		// a run that ends in an error leaves the output as it was: the only error after the
		// replacement was attempted is the replacement's own failure (not, say, a failing print)
		op := vrt.EffectOp(vrt.EffectCount() - 1)
		vrt.Assert("error-after-write-is-write-failure", op == "WriteFile" || op == "OpenFile" || op == "FileWrite" || op == "FileClose" || op == "Rename" || op == "Remove")
	}
	if err == nil {
		if output {
			vrt.Assert("print-once", nPrint == 1)
			// "appears on stdout identically": the very bytes, nothing appended
			vrt.Assert("print-is-result", vrt.EffectStr(lastEffect("print:stdout"), 0) == string(res))
		} else {
			vrt.Assert("no-print-without-flag", nPrint == 0)
		}
		if !dry {
			vrt.Assert("written-once", nWrite == 1)
			if nWrite == 1 {
				vrt.Assert("write-content-is-result", ws[0].content == string(res))
			}
		}
	}
	vrt.Reach("end")
}

func isFsEffect(op string) bool {
	return op == "WriteFile" || op == "OpenFile" || strings.HasPrefix(op, "fs:")
}

// C15Run: real runner.Run with every stage summarised by an arbitrary result/error. The only
// file-system effects are the log file (iff conf.Log != "", opened first with O_RDWR|O_TRUNC|O_CREATE)
// and at most one whole-file write of the formatted bytes to conf.Output with mode 0644, which
// happens iff !DryRun and every stage and both formatters succeeded - the output path is not
// touched before that - and is the last effect; Run reports every failure.
func C15Run() {
	if !vrt.Symbolic() {
		return
	}
	vrt.SetEnv("stages", "stub")
	vrt.SetEnv("stdout.faulty", true)
	conf := config.Config{
		Input:  vrt.String("conf.Input", pathLen),
		Output: vrt.String("conf.Output", pathLen),
		Log:    vrt.String("conf.Log", pathLen),
		DryRun: vrt.Bool("conf.DryRun"),
		Prints: vrt.Bool("conf.Prints"),
	}
	err := runner.Run(conf)

	n := vrt.EffectCount()
	logAt := -1
	if conf.Log != "" {
		vrt.Assert("log-opened-first", n > 0 && vrt.EffectOp(0) == "OpenFile")
		if n > 0 && vrt.EffectOp(0) == "OpenFile" {
			logAt = 0
			vrt.Assert("log-target", vrt.EffectStr(0, 0) == conf.Log)
			vrt.Assert("log-flags", vrt.EffectInt(0, 1) == 0x242) // O_RDWR|O_CREATE|O_TRUNC
		}
	}
	if k := lastEffect("imports.Process"); k >= 0 {
		// (see C18Generate: the stale output must be the one file the import optimiser does not read)
		vrt.Assert("import-optimiser-is-told-the-output-path", vrt.EffectStr(k, 0) == conf.Output)
	}
	ws, stray := fsWrites(logAt)
	nWrite := len(ws)
	nOther := 0
	for i := 0; i < n; i++ {
		if strings.HasPrefix(vrt.EffectOp(i), "fs:") {
			nOther++
		}
	}
	for _, w := range ws {
		last := n - 1
		if conf.Prints && vrt.EffectOp(n-1) == "print:stdout" {
			last = n - 2
		}
		vrt.Assert("write-is-last-fs-effect", w.endAt == last)
		vrt.Assert("write-target-is-output", w.path == conf.Output)
		vrt.Assert("write-mode", w.mode == 0644)
		vrt.Assert("write-replaces-the-whole-file", w.whole)
		vrt.Assert("output-untouched-until-every-stage-succeeded", stagesAfter(w.openAt) == 0)
	}
	vrt.Assert("no-other-fs-effect", nOther == 0 && stray == 0)
	vrt.Assert("at-most-one-write", nWrite <= 1)
	if conf.DryRun {
		vrt.Assert("dry-never-writes", nWrite == 0)
	}
	if err == nil {
		vrt.Assert("success-writes-unless-dry", (nWrite == 1) == !conf.DryRun)
	} else if nWrite == 1 {
		// the only error after a write attempt is the write's own failure
		op := vrt.EffectOp(n - 1)
		vrt.Assert("error-after-write-is-write-failure", op == "WriteFile" || op == "OpenFile" || op == "FileWrite" || op == "FileClose" || op == "Rename" || op == "Remove")
	}
	vrt.Reach("end")
}
