//go:build verif

package zz_verif

// Mode T harness for default matching (C04), slice strategies (C16) and compilability (C01) over
// the type-pair matrix of skeleton types: field Fii of Src (type Ti) against field Fii of DstJJ
// (type Tj) for all i, j, with the four toggles and the match rule symbolic.

import (
	"go/types"
	"strings"

	"github.com/reedom/convergen/pkg/generator"
	gmodel "github.com/reedom/convergen/pkg/generator/model"
	"github.com/reedom/convergen/pkg/vrt"
)

// hasStringMethod: the type (or the type it points to) is a named type with String() string.
func hasStringMethod(t types.Type) bool {
	if p, ok := t.(*types.Pointer); ok {
		if types.IsInterface(p.Elem()) {
			return false // a pointer to an interface has no methods (Go spec: method sets)
		}
		t = p.Elem()
	}
	n, ok := t.(*types.Named)
	if !ok {
		return false
	}
	obj, _, _ := types.LookupFieldOrMethod(n, false, n.Obj().Pkg(), "String")
	f, ok := obj.(*types.Func)
	if !ok {
		return false
	}
	sig := f.Type().(*types.Signature)
	return sig.Params().Len() == 0 && sig.Results().Len() == 1 && sig.Results().At(0).Type().String() == "string"
}

func isStruct(t types.Type) bool { _, ok := t.Underlying().(*types.Struct); return ok }

// spellable: conversions are emitted as T(x); convergen spells named and basic target types
// (optionally behind one pointer).
func spellable(t types.Type) bool {
	if p, ok := t.(*types.Pointer); ok {
		t = p.Elem()
	}
	switch t.(type) {
	case *types.Named, *types.Basic:
		return true
	}
	return false
}

// refMatch is the reference matcher, written from the statement of C04 (README ":match",
// ":typecast", ":stringer"): it returns the set of acceptable outcomes for a same-named,
// accessible source FIELD of type ti and destination field of type tj.
func refMatch(ti, tj types.Type, ruleName, stringer, typecast bool) string {
	if !ruleName {
		return "nomatch" // fields are matched by name only under :match name
	}
	si, iok := ti.(*types.Slice)
	sj, jok := tj.(*types.Slice)
	if iok && jok {
		if types.AssignableTo(si.Elem(), sj.Elem()) {
			return "slice-copy"
		}
		if typecast && types.ConvertibleTo(si.Elem(), sj.Elem()) {
			return "slice-cast"
		}
	}
	if types.AssignableTo(ti, tj) {
		return "plain"
	}
	if stringer && types.AssignableTo(types.Typ[types.String], tj) && hasStringMethod(ti) {
		return "stringer"
	}
	if typecast && types.ConvertibleTo(ti, tj) {
		if spellable(tj) {
			return "typecast"
		}
		return "typecast|nomatch" // a conversion the tool cannot spell may be reported as unmatched
	}
	if isStruct(ti) && isStruct(tj) && tj.Underlying().(*types.Struct).NumFields() > 0 {
		return "nested"
	}
	return "nomatch" // (incl. an empty destination struct of another type: nothing to copy member-wise, so it is reported)
}

func classify(a gmodel.Assignment, lhs, rhs string) string {
	switch x := a.(type) {
	case gmodel.SkipField:
		return "skip"
	case gmodel.NoMatchField:
		return "nomatch"
	case gmodel.SimpleField:
		switch {
		case x.RHS == rhs:
			return "plain"
		case x.RHS == rhs+".String()":
			return "stringer"
		case strings.HasSuffix(x.RHS, "("+rhs+")"):
			return "typecast"
		}
		return "other:" + x.RHS
	case gmodel.SliceAssignment:
		return "slice-copy"
	case gmodel.SliceLoopAssignment:
		return "slice-copy"
	case gmodel.SliceTypecastAssignment:
		return "slice-cast"
	case gmodel.NestStruct:
		if x.NullCheckExpr != "" && len(x.Contents) == 1 {
			// a nil guard around one assignment (String() on a pointer, an explicit path)
			return classify(x.Contents[0], lhs, rhs)
		}
		return "nested"
	}
	return "unknown"
}

func lhsOf(a gmodel.Assignment) string {
	switch x := a.(type) {
	case gmodel.SkipField:
		return x.LHS
	case gmodel.NoMatchField:
		return x.LHS
	case gmodel.SimpleField:
		return x.LHS
	case gmodel.SliceAssignment:
		return x.LHS
	case gmodel.SliceLoopAssignment:
		return x.LHS
	case gmodel.SliceTypecastAssignment:
		return x.LHS
	case gmodel.NestStruct:
		if x.NullCheckExpr != "" && len(x.Contents) == 1 {
			return lhsOf(x.Contents[0]) // a nil guard around one assignment
		}
		// the nested struct's own path is the common prefix of its contents
		if len(x.Contents) > 0 {
			l := lhsOf(x.Contents[0])
			if i := strings.LastIndex(l, "."); i > 0 {
				return l[:i]
			}
		}
	}
	return ""
}

func fieldName(i int) string {
	return "F" + string(rune('0'+i/10)) + string(rune('0'+i%10))
}

func matrixHarness(lo, hi int) {
	p, infos, err := parseSkeleton("types")
	vrt.Assert("accepted", err == nil && len(infos) == 1)
	if err != nil {
		return
	}
	methods := infos[0].Methods
	j := lo + vrt.Choose("dstType", hi-lo)
	vrt.Assume(j < len(methods))
	m := methods[j]
	stringer, typecast := vrt.Bool("stringer"), vrt.Bool("typecast")
	ruleName := vrt.Bool("ruleName")
	m.Opts.Stringer, m.Opts.Typecast = stringer, typecast
	m.Opts.Getter = vrt.Bool("getter")
	m.Opts.ExactCase = vrt.Bool("exactCase")
	if !ruleName {
		m.Opts.Rule = gmodel.MatchRuleNone
	}
	var fn *gmodel.Function
	stderr := vrt.CaptureStderr(func() { fn, err = p.CreateBuilder().CreateFunction(m) })
	vrt.Assert("function-created", err == nil)
	if err != nil {
		return
	}
	src := m.SrcVar().Type().(*types.Pointer).Elem().Underlying().(*types.Struct)
	dst := m.DstVar().Type().(*types.Pointer).Elem().Underlying().(*types.Struct)
	byLHS := map[string]gmodel.Assignment{}
	count := map[string]int{}
	for _, a := range fn.Assignments {
		l := lhsOf(a)
		byLHS[l] = a
		count[l]++
	}
	for i := 0; i < dst.NumFields(); i++ {
		name := fieldName(i)
		ti, tj := src.Field(i).Type(), dst.Field(i).Type()
		want := refMatch(ti, tj, ruleName, stringer, typecast)
		a, ok := byLHS["dst."+name]
		got := "missing"
		if ok {
			got = classify(a, "dst."+name, "src."+name)
		}
		vrt.AssertMsg("match-decision", strings.Contains("|"+want+"|", "|"+got+"|"), name+" "+ti.String()+" -> "+tj.String()+": got "+got+", want "+want)
		vrt.AssertMsg("accounted-exactly-once", count["dst."+name] <= 1, name)
		if got == "nomatch" {
			vrt.AssertMsg("no-match-is-warned", strings.Contains(stderr, "no assignment for dst."+name+" "), name)
		}
	}
	text := generator.NewGenerator(gmodel.Code{}).FuncToString(fn)
	vrt.Observe("func", text)
	v := vrt.TypeCheckFuncs("types", text)
	vrt.AssertMsg("emitted-function-type-checks", v == "", v)
	vrt.Reach("end")
}

// C04Matrix: all 45 destination types.
func C04Matrix() { matrixHarness(0, 45) }
