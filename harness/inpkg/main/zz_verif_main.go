//go:build verif

package main

// Harness for the real main() (injected by overlay as /repo/zz_verif_main.go, never committed to
// /repo): flags, positional argument and GOFILE are symbolic, every pipeline stage is summarised
// by an arbitrary result/error (as in C15Run).

import (
	"github.com/reedom/convergen/pkg/vrt"
)

// C14MainReports: whenever main ends the process with a non-zero status - bad arguments, or ANY
// stage of the run failing, also a failure that never went through the logger (os.Stat, the
// import optimiser, the formatter, the write) - it has written a message to standard error first;
// the status is 1; a run without failure returns normally.
func C14MainReports() {
	if !vrt.Symbolic() {
		return
	}
	vrt.SetEnv("stages", "stub")
	vrt.SetEnv("flag:out", vrt.String("flag.out", 3))
	vrt.SetEnv("flag:log", vrt.Bool("flag.log"))
	vrt.SetEnv("flag:dry", vrt.Bool("flag.dry"))
	vrt.SetEnv("flag:print", vrt.Bool("flag.print"))
	vrt.SetEnv("arg:0", vrt.String("arg0", 3))
	vrt.SetEnv("env:GOFILE", vrt.String("GOFILE", 3))
	vrt.SetEnv("expect-exit", 1)
	vrt.SetEnv("exit-needs-stderr", true)
	main()
	vrt.Reach("returned-normally")
}
