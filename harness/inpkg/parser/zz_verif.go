//go:build verif

package parser

// Accessor for the verification harnesses (injected by overlay, never committed to /repo): builds
// a Parser around a given syntax tree so that GenerateBaseCode's marker planting can be driven
// directly.

import (
	"go/ast"
	"go/token"
	"go/types"
	"regexp"

	"github.com/reedom/convergen/pkg/option"
)

// VerifEntry names a converter interface and its marker.
type VerifEntry struct {
	Obj    types.Object
	Marker string
}

// VerifParser returns a Parser whose file and converter entries are the given ones.
func VerifParser(file *ast.File, fset *token.FileSet, entries []VerifEntry) *Parser {
	p := &Parser{file: file, fset: fset}
	for _, e := range entries {
		p.intfEntries = append(p.intfEntries, &intfEntry{intf: e.Obj, marker: e.Marker})
	}
	return p
}

// VerifFile returns the syntax tree of the input file as the parser holds it.
func VerifFile(p *Parser) *ast.File { return p.file }

// VerifRegexps returns the compiled directive / notation / marker expressions.
func VerifRegexps() (goBuildGen, notation, convergen *regexp.Regexp) {
	return reGoBuildGen, reNotation, reConvergen
}

// VerifNotationResult is what one notation line did to a fresh (method-level) option set.
type VerifNotationResult struct {
	Err       string
	Literals  [][2]string // destination path, literal text
	Maps      [][2]string // source path, destination path
	Convs     [][3]string // function, source path, destination path
	Style     string
	Receiver  string
	ExactCase bool
}

// VerifParseNotation runs the real parseNotationInComments on one method-level notation line.
func VerifParseNotation(text string) VerifNotationResult {
	p := &Parser{fset: token.NewFileSet()}
	opts := option.NewOptions()
	err := p.parseNotationInComments([]*ast.Comment{{Slash: token.NoPos, Text: text}}, option.ValidOpsMethod, &opts)
	var res VerifNotationResult
	if err != nil {
		res.Err = err.Error()
		if res.Err == "" {
			res.Err = "<error>"
		}
	}
	for _, l := range opts.Literals {
		res.Literals = append(res.Literals, [2]string{verifPath(l.Dst()), l.Literal()})
	}
	for _, m := range opts.NameMapper {
		res.Maps = append(res.Maps, [2]string{verifPath(m.Src()), verifPath(m.Dst())})
	}
	for _, m := range opts.TemplatedNameMapper {
		res.Maps = append(res.Maps, [2]string{verifPath(m.Src()), verifPath(m.Dst())})
	}
	for _, c := range opts.Converters {
		res.Convs = append(res.Convs, [3]string{c.Converter(), verifPath(c.Src()), verifPath(c.Dst())})
	}
	res.Style = opts.Style.String()
	res.Receiver = opts.Receiver
	res.ExactCase = opts.ExactCase
	return res
}

func verifPath(m *option.IdentMatcher) string {
	s := ""
	for i := 0; i < m.PathLen(); i++ {
		if i > 0 {
			s += "."
		}
		s += m.ExprAt(i)
	}
	return s
}
