//go:build verif

package parser

// Accessor for the verification harnesses (injected by overlay, never committed to /repo): builds
// a Parser around a given syntax tree so that GenerateBaseCode's marker planting can be driven
// directly.

import (
	"regexp"
	"go/ast"
	"go/token"
	"go/types"
)

// VerifEntry names a converter interface and its marker.
type VerifEntry struct {
	Obj    types.Object
	Marker string
}

// VerifParser returns a Parser whose file and converter entries are the given ones.
func VerifParser(file *ast.File, fset *token.FileSet, entries []VerifEntry) *Parser {
	p := &Parser{file: file, fset: fset}
	for _, e := range entries {
		p.intfEntries = append(p.intfEntries, &intfEntry{intf: e.Obj, marker: e.Marker})
	}
	return p
}

// VerifFile returns the syntax tree of the input file as the parser holds it.
func VerifFile(p *Parser) *ast.File { return p.file }

// VerifRegexps returns the compiled directive / notation / marker expressions.
func VerifRegexps() (goBuildGen, notation, convergen *regexp.Regexp) {
	return reGoBuildGen, reNotation, reConvergen
}
