#!/bin/bash
# import_r5.sh <out-dir of a sub-agent (with m1, m2)> : copies each delivered change to /verif/seeded/<prop>-<next n>,
# confirms it (tools/confirm_mut.sh) and, when confirmed, evaluates it (tools/seed_eval.sh). Unconfirmed ones are removed.
cd /verif
for m in "$1"/m*; do
  [ -f "$m/patch.diff" ] || continue
  prop=$(python3 -c "import json; print(json.load(open('$m/meta.json'))['property'])") || continue
  n=1; while [ -e seeded/$prop-$n ] || [ -e seeded/.dropped-$prop-$n ]; do n=$((n+1)); done
  d=seeded/$prop-$n
  mkdir -p $d; cp "$m"/patch.diff "$m"/meta.json $d/; cp "$m"/demo.sh "$m"/demo_test.go $d/ 2>/dev/null
  r=$(tools/confirm_mut.sh $d 2>&1 | grep '^CONFIRM' | tail -1)
  echo "$r"
  if echo "$r" | grep -q ': CONFIRMED'; then
    python3 - "$d" "$r" <<'PY'
import json,sys,subprocess
d,r=sys.argv[1:3]
m=json.load(open(d+'/meta.json'))
head=subprocess.check_output(['git','-C','/repo','rev-parse','--short','HEAD']).decode().strip()
m['confirmed']={"how":"tools/confirm_mut.sh in a scratch worktree of /repo: patch applies, go build ./... ok, go test -vet=off -count=1 ./... passes, demonstration fails with the patch and passes without","result":r.split(': ',1)[1],"repo_head":head,"origin":"round 5: written by an independent sub-agent that saw only the property text (and a one-line list of earlier changes to avoid)"}
json.dump(m,open(d+'/meta.json','w'),indent=1)
PY
    tools/seed_eval.sh $d
  else
    echo "UNCONFIRMED $m -> $d (kept aside as /tmp/r5/unconfirmed-$prop-$n)"; mv $d /tmp/r5/unconfirmed-$prop-$n
  fi
done
