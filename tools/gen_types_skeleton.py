#!/usr/bin/env python3
"""Regenerates skeletons/types/{types.go,setup.go}: field Fii of Src has type T_i, every field of DstJJ has type T_j."""
import re
HEADER = '''package types

import (
	"unsafe"

	"verifsk/ext"
	"verifsk/ext2"
)

type MyInt int

type MyStr string

func (m MyStr) String() string { return string(m) }

type fmtStringer interface{ String() string }

type S1 struct {
	X int
	Y string
}

type S2 struct {
	X int64
	Y string
	Z bool
}

// S3 has the same underlying type as S1.
type S3 struct {
	X int
	Y string
}

type Empty struct{}

var _ ext.ID

'''
TYPES = ["int", "int32", "int64", "uint8", "float64", "string", "bool", "MyInt", "MyStr", "ext.ID", "ext.Label",
         "S1", "S2", "S3", "Empty", "ext.Pet", "struct{ X int }", "*S1", "**S1", "*int", "[]int", "[]MyInt", "[]S1",
         "[]*S1", "[][]S1", "[]string", "[]interface{}", "[]ext.Pet", "map[string]int", "interface{}", "error",
         "func()", "chan int", "[2]int", "fmtStringer",
         # pointers to distinct but convertible types (conversion must be spelled (*T)(x))
         "*MyInt", "*S3", "*ext.ID",
         # slices whose elements are pointers to convertible types / values of a package the setup file does not import
         "[]*S3", "[]*MyInt", "ext.Box", "[]ext2.T", "ext2.Code",
         # pointer to a predeclared named type, and the type everything pointer-like converts to
         "*error", "unsafe.Pointer",
         # pointer to an interface: it has no methods, whatever the interface declares
         "*fmtStringer"]
def main():
    n = len(TYPES)
    out = [HEADER, "type Src struct {\n"]
    for i, t in enumerate(TYPES):
        out.append("\tF%02d %s\n" % (i, t))
    out.append("}\n")
    for j, t in enumerate(TYPES):
        out.append("\n// Dst%02d: every field has type %s.\ntype Dst%02d struct {\n" % (j, t, j))
        for i in range(n):
            out.append("\tF%02d %s\n" % (i, t))
        out.append("}\n")
    open("/verif/skeletons/types/types.go", "w").write("".join(out))
    s = ['//go:build convergen\n\npackage types\n\nimport "verifsk/ext"\n\nvar _ ext.ID\n\ntype Convergen interface {\n']
    for j in range(n):
        s.append("\tTo%02d(*Src) *Dst%02d\n" % (j, j))
    s.append("}\n")
    open("/verif/skeletons/types/setup.go", "w").write("".join(s))
    print(n, "types")
main()
