#!/bin/bash
# confirm_mut.sh <mutation-dir (patch.diff, demo.sh|demo_test.go, meta.json)> : confirms in a scratch worktree that
# the patch applies, builds, passes the existing suite, and that the demo fails with it and passes without it.
export GOFLAGS=-mod=mod GOPROXY=off GOSUMDB=off GOTOOLCHAIN=local
M=$(realpath "$1"); NAME=$(echo "$M" | sed 's|/|_|g')
WT=/tmp/confirm/$NAME
rm -rf "$WT"; mkdir -p /tmp/confirm
git -C /repo worktree add --detach "$WT" HEAD -q || exit 2
cd "$WT" || exit 2
res() { echo "CONFIRM $M: $*"; }
run_demo() {
  if [ -f "$M/demo.sh" ]; then
    timeout 600 bash "$M/demo.sh" "$WT" >/tmp/confirm/$NAME.demo.log 2>&1; return $?
  else
    pkgdir=$(python3 -c "import json,sys; m=json.load(open('$M/meta.json')); d=m.get('demo_dir') or m.get('package') or ''; print(d)" 2>/dev/null)
    if [ -z "$pkgdir" ] || [ ! -d "$WT/$pkgdir" ]; then
      for c in $(grep -o 'pkg/[a-z/_]*' "$M/meta.json" | sed 's|/*$||' | sort -u); do
        while [ -n "$c" ] && [ ! -d "$WT/$c" ]; do c=$(dirname "$c"); done
        if [ -d "$WT/$c" ] && [ "$c" != "pkg" ] && [ "$c" != "." ]; then pkgdir=$c; break; fi
      done
    fi
    cp "$M/demo_test.go" "$WT/$pkgdir/zz_demo_test.go"
    timeout 600 go test -vet=off -count=1 -run 'TestC[0-9]|Demo|Mut' ./$pkgdir/ >/tmp/confirm/$NAME.demo.log 2>&1; rc=$?
    rm -f "$WT/$pkgdir/zz_demo_test.go"; return $rc
  fi
}
OK=1
git apply "$M/patch.diff" || { res "patch does not apply"; OK=0; }
if [ $OK = 1 ]; then
  go build ./... >/tmp/confirm/$NAME.build.log 2>&1 || { res "build fails"; OK=0; }
fi
if [ $OK = 1 ]; then
  go test -vet=off -count=1 ./... >/tmp/confirm/$NAME.test.log 2>&1 || { res "existing tests FAIL with the patch"; OK=0; }
fi
if [ $OK = 1 ]; then
  run_demo; d1=$?
  git checkout -q -- . ; git clean -fdq
  run_demo; d0=$?
  if [ $d1 != 0 ] && [ $d0 = 0 ]; then res "CONFIRMED (demo fails with patch rc=$d1, passes without)"; else res "NOT confirmed (demo rc with patch=$d1, without=$d0)"; fi
fi
cd /; git -C /repo worktree remove --force "$WT"
