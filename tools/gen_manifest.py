#!/usr/bin/env python3
"""Regenerates /verif/MANIFEST.json from the table below (kept by hand, checked against the schema)."""
import json, subprocess, sys

PROPS = [json.loads(l)["id"] for l in open("/verif/properties.jsonl")]

TB = ("Trusted base: the symgo engine (/verif/engine: go/ssa front end of x/tools v0.29.0, the executor's Go semantics, "
      "the stub catalogue of DESIGN.md section 3.2) and z3 5.1.0; per-path native judges (go/parser, go/types). ")

CLAIMS = {
 "C07": dict(
   text="Bounded symbolic execution of the real emitter (FuncToString, AssignmentToString, NestStruct rendering, ManipulatorToString) over all assignment-tree shapes, styles, pointer-ness and hook configurations within the bound: every feasible path's emitted function is parsed and must check and return err immediately after every err-assigning statement at any depth. Decides the emitter half of C07 for every configuration in the bound; counterexamples are replayed natively against the real build.",
   note=TB+"Not decided here: programs outside the bound; see DESIGN.md section 5.",
   technique="SMT-guided symbolic execution of go/ssa (path forking, z3), concrete AST judge per path, native replay of models",
   ref="4/C07"),
 "C08": dict(
   text="Bounded symbolic execution of the real FuncToString over the complete flag space of the documented signature shapes (style x receiver x source/destination pointer-ness x error x 0..3 additional arguments): each path's header is parsed and compared with a table of the README's shapes.",
   note=TB+"Mode K: names/types are placeholder atoms. Mode T (C08CreateFunction): real CreateFunction over a 120-signature skeleton with go/types facts as reference and the Go type checker as judge of the emitted header.",
   technique="SMT-guided symbolic execution of go/ssa (path forking, z3), concrete AST judge per path, native replay of models",
   ref="4/C08"),
 "C10": dict(
   text="Bounded symbolic execution of the real FuncToString + ManipulatorToString for every hook signature shape (dst/src by pointer or value, additional arguments, error) in every function shape: call placement, exactly-once, operand pointer depth against the emitted header, argument forwarding, error check.",
   note=TB+"Hook acceptance/rejection at generation time (lookupManipulatorFunc/buildManipulator) and run-time behaviour of generated code are covered by mode T/G harnesses when registered.",
   technique="SMT-guided symbolic execution of go/ssa (path forking, z3), concrete AST judge per path, native replay of models",
   ref="4/C10"),
 "C15": dict(
   text="Bounded symbolic execution of the real runner.Run and Generator.Generate with every pipeline stage summarised by an arbitrary result/error and the file system, stdout and formatters as effect-recording nondeterministic stubs: for every flag valuation and every subset of stage failures the effect trace contains only the log open (iff -log, first) and at most one whole-file write of the formatted bytes to the output path, iff not dry-run and everything succeeded, as the last file-system effect. Counterexamples are replayed end-to-end with the built binary (directory snapshot before/after).",
   note=TB+"C12LoaderHook adds: an output path naming the input file itself (os.SameFile symbolic: any spelling, hard or symbolic link) is rejected by NewParser, i.e. before any write. Assumes the stage summaries (stages have no file-system effect of their own; GOCACHE writes by go list and atomicity of os.WriteFile are outside). Round 5: standard output may reject the print (symbolic error; /dev/full in the replay), the rename may fail at the last step (output path is a directory), os.LookupEnv modelled.",
   technique="SMT-guided symbolic execution of go/ssa with effect-trace stubs; end-to-end replay of models with the built binary",
   ref="4/C15"),
 "C18": dict(
   text="Bounded symbolic execution of the real Config.ParseArgs (all flags, positional argument and GOFILE symbolic; paths as symbolic byte vectors up to 10 bytes compared against an independent definition of 'insert .gen before the extension'), of Generate's print/dry/write branching and of Run's log handling, with flag/os/fmt stubbed. Counterexamples are replayed natively (ParseArgs) or end-to-end with the built binary.",
   note=TB+"Real flag-package parsing and paths longer than 10 bytes / non-ASCII bytes are outside the bound.",
   technique="SMT-guided symbolic execution of go/ssa over symbolic byte-vector strings; differential against a reference definition; native / end-to-end replay",
   ref="4/C18"),
 "C19": dict(
   text="Bounded symbolic execution of the real matcher code (NewPatternMatcher, compileRegexp, PatternMatcher.Match incl. its recompile-on-rule-change state, Options.ShouldSkip/CompareFieldName, IdentMatcher, NameMatcher, FieldConverter, LiteralSetter) with the subject path a vector of symbolic code points over the alphabet Sigma, symbolic case rules and symbolic query histories; the solver proves agreement with the documented meaning (equality, Unicode simple-fold tables generated from Go's unicode package, RE2 membership by symbolic simulation of the natively compiled regexp/syntax program of the original expression) or returns a concrete (pattern, path, rule, history) which is replayed natively.",
   note=TB+"Bounds: subjects <= 3 (quick) / 5 (thorough) code points of Sigma, 95 catalogue patterns, histories <= 2/3. regexp itself (parser/compiler) is environment.",
   technique="SMT-guided symbolic execution of go/ssa; rune-vector strings; symbolic Thompson-NFA simulation of regexp/syntax programs; LIA case tables; native replay",
   ref="4/C19"),
 "C11": dict(
   text="Bounded symbolic execution of the text kernels that carry the setup file over: marker substitution (Generate/generateContent with symbolic surrounding text, 1..2 blocks in either order, 0..2 functions each, two marker pairs) and notation/directive extraction (ExtractMatchComments/MatchComments/ToTextList over groups of 0..5 comments with symbolic texts and arbitrary match outcomes). The solver decides every branch; results are compared with reference equations.",
   note=TB+"Also: C03MarkerLayout (marker planting on symbolic positions), C11Directives (the real compiled directive/notation regexps simulated on symbolic comment text), C11DocForwarding and C11WholeFile (mode T: the REAL runner.Run on skeleton whole with go/printer run natively on the concrete tree; the whole generated text is compared clause by clause for every menu combination). NOT decided: imports.Process pruning and go/format (environment), go/printer outside the layouts of C03MarkerLayout and skeleton whole.",
   technique="SMT-guided symbolic execution of go/ssa over symbolic byte-vector / SMT strings; reference equations",
   ref="4/C11"),
 "C13": dict(
   text="Bounded symbolic execution with map iteration order as an explored dimension: NewImportNames/LookupName/LookupPath over arbitrary valid import tables under every iteration order at every range site, with a cross-path obligation (solver query per pair of jointly satisfiable paths) that all lookup results agree; marker independence of generateContent (two marker sets, equal content); SSA inventory of every map range, goroutine, select, random/time/environment call in convergen's packages against a reviewed allow-list (a new site is inconclusive, never silently accepted). Order dependences are replayed natively by repetition.",
   note=TB+"Also: C18ParseArgs (the designated output path is the same function of the input path under every spelling of its directory part), C11WholeFile (no random marker survives, incl. a converter interface without methods), and the corpus is generated twice in fresh processes (byte-identical output and diagnostics; end-to-end validation). NOT decided: package/file order delivered by go/packages, stderr interleaving.",
   technique="SMT-guided symbolic execution of go/ssa with map-order forking and cross-path (2-safety) solver queries; SSA inventory; native replay by repetition",
   ref="4/C13"),
 "C17": dict(
   text="Symbolic execution of the real front end (NewParser's ParseFile hook, Parse, findConvergenEntries, parseMethods, CreateFunctions) on skeleton packages with native go/types objects, for every combination of interface doc comments from a menu (marked / unmarked / look-alike spellings), incl. a marked interface in a sibling file, a marked non-interface and a file without converter interface; plus the marker-substitution kernel (every function block lands at its own interface's marker). Sampled paths are validated by running the same harness natively on the materialised skeleton.",
   note=TB+"Programs are the skeleton catalogue (sel, nointf). NOT decided: that unmarked interfaces are printed untouched (go/printer).",
   technique="symbolic execution of go/ssa with native go/types bridge over skeleton packages; exhaustive menu exploration; native replay",
   ref="4/C17"),
 "C09": dict(
   text="Symbolic execution of the real notation pipeline (findConvergenEntries, parseMethods, parseMethod, parseNotationInComments, Options copies) on a 2x2 interface/method skeleton for every placement of ON/OFF notations of all six toggle families and of list notations, compared against a reference fold of the README's scoping rule; non-interference of other toggles, other methods and other interfaces; append-aliasing of option slices; case-rule override seen through ShouldSkip.",
   note=TB+"Programs: skeleton scope; notation texts from menus (28800 combinations). Round 5: C09CrossMethod on skeleton cross; C17Selection for methods inherited from a same-file interface; interface-level :skip lines in the scope menu.",
   technique="symbolic execution of go/ssa with native go/types bridge; exhaustive slot exploration against a reference model; native replay",
   ref="4/C09"),
 "C14": dict(
   text="Symbolic execution of the real front half on skeleton packages (native go/types objects) for every entry of a menu of 96 malformed / misplaced / wrongly-shaped notations and referenced function signatures, combined with toggles: Go run-time panics are first-class outcomes of the executor (nil dereference, index, slice, makeslice, type assertion, native panics inside go/types calls) and an implicit obligation on every path; rejection must carry a positioned diagnostic; success must keep every method. Plus -out = input. Counterexamples are replayed natively on the materialised skeleton.",
   note=TB+"Programs: skeletons bad/basic/dup/sel; C14MainReports runs the REAL main() (harness injected into package main by overlay) with every stage summarised: every non-zero exit is preceded by a message on standard error. Notation texts from menus, plus C14NotationBytes: the real parseNotationInComments on one notation line whose ARGUMENT TEXT is an arbitrary ASCII byte string of up to 4 (thorough 5) bytes (reNotation run by a leftmost-first backtracking matcher whose character-class tests on symbolic bytes are path decisions; go/parser.ParseExpr on symbolic text is an arbitrary consistent predicate). Panics/hangs inside go/packages, imports, regexp are outside. Round 5: C14OddPath (skeleton module in a directory called 'w:1 %d'), C05Logger (real logger package), an additional argument of type error, converters/hooks whose result merely implements error.",
   technique="symbolic execution of go/ssa with native go/types bridge; panic-freedom as path outcome; native replay",
   ref="4/C14"),
 "C04": dict(
   text="Symbolic execution of the real assignment builder over a 46x46 matrix of Go field-type pairs (native go/types objects) with the four toggles and the match rule as symbolic inputs: every decision is compared with an independent reference matcher written from the property statement on go/types facts (AssignableTo/ConvertibleTo/method sets), including the stand-alone implications (no conversion / String() / getter without opt-in, nothing matched under :match none), and every emitted function is type-checked.",
   note=TB+"Programs: skeleton types (+ names when registered); field names concrete (arbitrary-string comparison is C19). Round 5: matrix 46x46 (pointer to interface added); C19IdentMatchers registered for CompareFieldName over all names of the alphabet (byte length of code-point vectors is an integer term).",
   technique="symbolic execution of go/ssa with native go/types bridge; differential against a reference matcher; Go type checker as judge; native replay",
   ref="4/C04"),
 "C05": dict(
   text="Symbolic execution of the real assignment builder on shape skeletons (native go/types objects) for every pair of notations from a 110x13 menu: an independent walker recomputes the reachable destination leaves from go/types and each must be covered by exactly one emitted line (on itself or an enclosing path), members invisible to the package must never be mentioned (incl. a setup package sharing its NAME with the imported one), every no-match must be warned on stderr with a position; plus the 45x45 type matrix. Emitted functions are type-checked.",
   note=TB+"Programs: skeletons shapes, samename, types; corpus case nested. Destination leaves are enumerated through by-value struct nesting only (paths through pointers are outside), blank fields are no fields, a struct none of whose members is visible is a leaf of its own. Round 5: C05Logger executes the REAL logger package (summarised elsewhere) on a model of log.Logger: the warning reaches standard error once and as formatted, with and without -log, also when the position text holds a percent sign or a colon; C09CrossMethod: no state of one method's build reaches another's.",
   technique="symbolic execution of go/ssa with native go/types bridge; independent leaf walker; Go type checker as judge; native replay",
   ref="4/C05"),
 "C06": dict(
   text="Same exploration as C05 with the precedence and source obligations of explicit notations checked per destination path against the chosen notation texts: :skip (exact, nested, regexp, case rule) never assigned whatever else applies; first :conv, then :map, then $n-map, then :literal naming the path supplies exactly that converter call / source expression / literal, else no match; never the default name match.",
   note=TB+"Notation texts come from menus (concrete), not arbitrary strings; one known finding (contradictory notations on a struct and its member) is listed in known_findings.json.",
   technique="symbolic execution of go/ssa with native go/types bridge; property oracles over the emitted assignment list; native replay",
   ref="4/C06"),
 "C01": dict(
   text="For every explored path of the mode-T harnesses (type matrix 35x35 x toggles, name variants, shape skeletons x notation menus, 120 signatures x style/reverse/receiver, malformed-notation menu) the function texts produced by the real builder+emitter are spliced into the skeleton package in place of the setup file and TYPE-CHECKED by go/types (ordinary build tags); rejection or no-match is the only alternative to well-typed output.",
   note=TB+"NOT decided: the assembled file (base code printing, regexp cut, imports.Process, format.Source, gofmt-cleanliness) - library internals; unused imports are ignored by the judge because goimports prunes them.",
   technique="symbolic execution of go/ssa with native go/types bridge; Go type checker as per-path judge; native replay",
   ref="4/C01"),
 "C16": dict(
   text="Mode T: the slice strategy decided by the real sliceToSlice for every element-type pair of the type matrix with :typecast symbolic (fresh-storage copy iff elements assignable, converting loop iff opted in and convertible, else the general ladder), each emitted function type-checked (copy() only on identical element types). Run-time aliasing/nil behaviour of the generated code: mode G when registered.",
   note=TB+"Programs: skeleton types; corpus case slices (run-time behaviour of the generated loops); C09Scoping for 'only under :typecast' across methods and interfaces.",
   technique="symbolic execution of go/ssa with native go/types bridge; reference matcher; Go type checker as judge",
   ref="4/C16"),
 "C02": dict(
   text="Symbolic execution of the GENERATED code: the tool built from the current tree is run on a hand-written corpus at check time, the emitted functions are executed symbolically (operands arbitrary: symbolic scalars, nil-ness of nested pointers, slice lengths 0..2/nil) next to independent hand-written reference functions; the solver decides equality of results, final operand states, returned errors and user-function call traces for all operand values, and absence of Go run-time panics; sampled paths are replayed natively (go test on the real generated code) to validate the encoding.",
   note=TB+"Programs: the corpus (7 cases, 61 generated functions); integer wrap-around and float arithmetic are not interpreted (conversions uninterpreted on both sides); panics inside user code are outside. Round 5: corpus case mix added (7 cases, 61 generated functions: arrays, maps nil or not, pointers to pointers, named slices, struct/error converters, getter chains, templated pointer paths).",
   technique="symbolic execution of the tool's generated code (go/ssa) against reference functions, SMT equality of symbolic results, native replay",
   ref="4/C02"),
 "C12": dict(
   text="Bounded symbolic execution of the code that separates a run from whatever is at the output path: NewParser's ParseFile hook with the loader, file system and Go parser as symbolic environment (the output file's bytes are arbitrary and are proven never to reach the parser; the result does not depend on the output path's state nor on the loaded package's error lists), plus the write discipline of Run/Generate (one whole-file WriteFile after everything succeeded). Together: the only channel from the bytes at the output path into a run is Stat/SameFile. Counterexamples and one validation run are replayed end to end with the built binary (stale, longer, truncated at many points, broken output; twice in a row; -out = input).",
   note=TB+"The loader overlay that blanks an existing output file is checked under five spellings of the output path (relative, ./, dir/../dir, absolute, another directory); a read of the old content (os.ReadFile, arbitrary bytes) must not change the single whole-file write. Assumed, not decided: go list / packages.Load behave the same whatever same-package bytes the output path holds once the overlay is in place (external process; validated end to end incl. absolute -out and a package clause cut inside the name). Round 5: the import optimiser must be told the OUTPUT path (it leaves exactly that file unread); regeneration replay adds leftover temporary files, a relative input below the module root over a stale file of another package name, a stale output with a misleading import.",
   technique="SMT-guided symbolic execution of go/ssa with symbolic loader/file system/parser; end-to-end regeneration replay with the built binary",
   ref="4/C12"),
 "C03": dict(
   text="Bounded symbolic execution of the marker planting of GenerateBaseCode with the brace and comment positions as symbolic integers (the solver decides every position comparison; the layout invariant that the printer's comment cursor needs is the obligation; counterexample layouts are rendered byte-exactly as setup files and run through the built binary; on the unchanged tree solver-chosen layouts are validated end to end), plus acceptance of every well-formed notation of the menus, of all documented-legal operand shapes and of every corpus case.",
   note=TB+"go/printer, the regexp cut and the formatter's re-parse are not encoded: acceptance is established up to the stated layout invariant (an assumption validated end to end, not a verdict). Round 5: C03DotImport (dot import and renamed import in notations and hook calls; a sibling file that already calls the functions to be generated, i.e. type errors of other files on the interface's line numbers).",
   technique="SMT-guided symbolic execution of go/ssa over symbolic source positions (LIA); end-to-end replay of rendered layouts",
   ref="4/C03 and Part I"),
}

NA_REASON = "check under construction in this session (engine exists, harness not yet registered); see DESIGN.md section 4"

def main():
    checks = []
    for pid in PROPS:
        if pid not in CLAIMS: continue
        c = CLAIMS[pid]
        checks.append({
            "property_id": pid,
            "quick_cmd": f"/verif/check {pid} quick",
            "thorough_cmd": f"/verif/check {pid} thorough",
            "evidence_file": f"/verif/evidence/{pid}.json",
            "replay_cmd_template": f"/verif/check {pid} --replay {{path}}",
            "engine": "symgo",
            "level_claimed": {"category": "model_checking", "text": c["text"], "design_ref": "DESIGN.md section " + c["ref"]},
            "level_note": c["note"],
            "technique": c["technique"],
        })
    m = {
      "version": 1,
      "setup_cmd": "cd /verif/engine && GOFLAGS=-mod=mod GOPROXY=off GOSUMDB=off GOTOOLCHAIN=local go build -o /verif/bin/symgo ./cmd/symgo",
      "hooks": {"guard": "verif",
                "enable": "no source change in /repo: harness packages (pkg/zz_verif, //go:build verif) and the vrt runtime are injected with go/packages Overlay (analysis) and go test -overlay (native replay)",
                "baseline_off_cmd": "cd /repo && GOFLAGS=-mod=mod GOPROXY=off go test -vet=off -count=1 ./...",
                "source_commits": [], "add_only": True},
      "engines": [{"name": "symgo", "path": "/verif/engine", "serves_properties": sorted(CLAIMS),
                   "kind_free_text": "symbolic executor for go/ssa (path forking by re-execution, SMT-LIB2 to z3 5.1.0 over a persistent pipe), written for this task"}],
      "checks": checks,
      "not_applicable": [{"property_id": p, "reason": NA_REASON} for p in PROPS if p not in CLAIMS],
      "notes": "Exit codes of /verif/check: 0 = all obligations discharged; 1 + VIOLATION line = replay-confirmed violation not listed in known_findings.json; 2 = inconclusive (encoder unsupported / solver unknown / unwinding bound), never counted as success.",
    }
    json.dump(m, open("/verif/MANIFEST.json", "w"), indent=1)
    import jsonschema
    jsonschema.validate(m, json.load(open("/root/.vp/MANIFEST.schema.json")))
    print("MANIFEST ok:", len(checks), "checks")

main()
