#!/bin/bash
# reeval_own.sh <seeded-dir>... : re-runs only the quick check of the property each change was written to break
# (after the machinery was strengthened) and merges the verdict into <dir>/detected.json.
cd /verif
WT=/tmp/reevalwt.$$
git -C /repo worktree add --detach $WT HEAD -q || exit 2
export VERIF_REPO=$WT VERIF_EVIDENCE_DIR=/tmp/reevalev.$$ VERIF_REPLAY_DIR=/tmp/reevalreplay.$$
trap 'git -C /repo worktree remove --force $WT; rm -rf /tmp/reevalev.$$ /tmp/reevalreplay.$$' EXIT
for d in "$@"; do
  d=$(realpath $d); id=$(basename $d)
  prop=$(python3 -c "import json; print(json.load(open('$d/meta.json'))['property'])")
  git -C $WT apply $d/patch.diff || { echo "$id: patch does not apply"; continue; }
  out=$(timeout 1500 ./check $prop quick 2>&1); rc=$?
  git -C $WT checkout -- . ; git -C $WT clean -fdq
  v=quiet
  if echo "$out" | grep -q '^VIOLATION'; then v=violation; elif [ $rc = 2 ]; then v=inconclusive; fi
  python3 - "$d" "$prop" "$v" <<'PY'
import json,sys,os
d,prop,v=sys.argv[1:4]
p=d+"/detected.json"
j=json.load(open(p)) if os.path.exists(p) else {"violation_reported_by":[],"inconclusive":[],"quiet":[]}
for k in ("violation_reported_by","inconclusive","quiet"):
    j[k]=[x for x in j.get(k,[]) if x!=prop]
key={"violation":"violation_reported_by","inconclusive":"inconclusive","quiet":"quiet"}[v]
j[key]=[prop]+j[key]
json.dump(j,open(p,"w"),indent=1)
PY
  echo "$id ($prop): own check -> $v"
done
