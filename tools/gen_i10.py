#!/usr/bin/env python3
"""Prints section I.10 of DESIGN.md (which checks catch which seeded changes) from seeded/*/meta.json and detected.json."""
import json, os, re
rows=[]
for d in sorted(os.listdir('/verif/seeded')):
    p='/verif/seeded/'+d
    if not os.path.exists(p+'/meta.json'): continue
    m=json.load(open(p+'/meta.json'))
    det={}
    if os.path.exists(p+'/detected.json'): det=json.load(open(p+'/detected.json'))
    summ=re.sub(r'\s+',' ',m.get('summary','')).strip()
    if len(summ)>170: summ=summ[:167]+'...'
    files=', '.join(sorted(set(re.findall(r'^\+\+\+ b/(\S+)', open(p+'/patch.diff').read(), re.M))))
    by=' '.join(det.get('violation_reported_by',[])) or '-'
    own='yes' if m.get('property') in det.get('violation_reported_by',[]) else ('**no**' if det else '?')
    inc=' '.join(det.get('inconclusive',[]))
    quiet=' '.join(det.get('quiet',[]))
    ported='ported' if os.path.exists(p+'/patch.original.diff') else ''
    rows.append((d,m.get('property'),files,summ.replace('|','\\|'),by,own,quiet,inc,ported))
print("| seed | breaks | file | change | VIOLATION reported by | own check | quiet (related checks run) | inconclusive | |")
print("|---|---|---|---|---|---|---|---|---|")
for r in rows: print("| "+" | ".join(r)+" |")
tot=len(rows); own=sum(1 for r in rows if r[5]=='yes'); anyd=sum(1 for r in rows if r[4]!='-')
print()
print("%d seeded changes; %d reported by the check of the property they were written to break, %d by at least one check."%(tot,own,anyd))
