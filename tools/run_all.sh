#!/bin/bash
# runs every registered quick check on the current tree and prints one line per property
cd /verif
for p in $(python3 -c "import json; print(' '.join(c['property_id'] for c in json.load(open('/verif/MANIFEST.json'))['checks']))"); do
  s=$(date +%s); out=$(timeout 1500 ./check $p ${1:-quick} 2>&1); rc=$?
  echo "$p rc=$rc $(( $(date +%s)-s ))s $(echo "$out" | grep -c '^KNOWN-FINDING') known; $(echo "$out" | grep '^VIOLATION\|^INCONCLUSIVE\|MISMATCH' | head -3 | cut -c1-200)"
done
