#!/bin/bash
# seed_eval.sh <seeded-dir>... : applies each seeded change to /repo, runs the quick checks of the property it breaks and of
# the checks related to the files it touches, undoes it, and records which checks raise a VIOLATION in <dir>/detected.json
cd /verif
WT=/tmp/seedwt.$$
git -C /repo worktree add --detach $WT HEAD -q || exit 2
export VERIF_REPO=$WT VERIF_EVIDENCE_DIR=/tmp/seedev.$$ VERIF_REPLAY_DIR=/tmp/seedreplay.$$
trap 'git -C /repo worktree remove --force $WT; rm -rf /tmp/seedev.$$ /tmp/seedreplay.$$' EXIT
for d in "$@"; do
  d=$(realpath $d); id=$(basename $d)
  if [ -f $d/detected.json ] && [ -z "$FORCE" ]; then echo "$id: already evaluated"; continue; fi
  prop=$(python3 -c "import json; print(json.load(open('$d/meta.json'))['property'])")
  files=$(grep '^+++ b/' $d/patch.diff | sed 's|+++ b/||')
  rel="$prop"
  for f in $files; do case $f in
    pkg/option/*) rel="$rel C19 C09 C06";;
    pkg/generator/model/*|pkg/generator/*.go) rel="$rel C08 C10 C07 C01 C02 C18 C15 C12 C11";;
    pkg/builder/*) rel="$rel C04 C05 C06 C01 C02 C16 C07 C10 C14 C08";;
    pkg/parser/*) rel="$rel C09 C14 C17 C12 C11 C13 C03";;
    pkg/util/*) rel="$rel C13 C04 C01 C11 C14";;
    pkg/config/*|pkg/runner/*|main.go) rel="$rel C18 C15 C13 C12";;
  esac; done
  claimed=$(python3 -c "import json; print(' '.join(c['property_id'] for c in json.load(open('/verif/MANIFEST.json'))['checks']))")
  rel=$(for p in $rel; do echo $p; done | awk '!s[$0]++' | grep -F -x -f <(for p in $claimed; do echo $p; done))
  git -C $WT apply $d/patch.diff || { echo "$id: patch does not apply"; continue; }
  det=""; inc=""; ok=""
  n=0
  for p in $rel; do
    # the property's own check always runs; once a VIOLATION is on record at most two more related checks are run
    if [ -n "$det" ] && [ $n -ge 3 ]; then break; fi
    n=$((n+1))
    out=$(timeout 1200 ./check $p quick 2>&1); rc=$?
    if echo "$out" | grep -q '^VIOLATION'; then det="$det $p"; elif [ $rc = 2 ]; then inc="$inc $p"; else ok="$ok $p"; fi
  done
  git -C $WT checkout -- .
  python3 - "$d" "$det" "$inc" "$ok" <<'PY'
import json,sys
d,det,inc,ok=sys.argv[1:5]
json.dump({"violation_reported_by":det.split(),"inconclusive":inc.split(),"quiet":ok.split()},open(d+"/detected.json","w"),indent=1)
PY
  echo "$id ($prop): VIOLATION by [$det ] inconclusive [$inc ] quiet [$ok ]"
done
