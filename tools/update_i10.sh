#!/bin/bash
# replaces the generated table of DESIGN.md section I.10 by the current output of gen_i10.py
cd /verif && python3 tools/gen_i10.py > /tmp/i10.md && python3 - <<'PY'
s=open('/verif/DESIGN.md').read()
t=open('/tmp/i10.md').read().rstrip('\n')
a=s.index('| seed | breaks | file | change | VIOLATION reported by |')
import re
m=re.search(r'\n\d+ seeded changes; .*?\n', s[a:])
b=a+m.end()
s=s[:a]+t+'\n'+s[b:]
open('/verif/DESIGN.md','w').write(s)
print(t.split('\n')[-1])
PY
