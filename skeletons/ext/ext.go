// Package ext holds the imported types of the skeleton catalogue.
package ext

import (
	"fmt"

	"verifsk/ext2"
)

type ID int64

func (i ID) String() string { return fmt.Sprint(int64(i)) }

type Label string

type Pet struct {
	ID     ID
	Name   string
	Weight float64
	secret int
	Tags   []string
}

func (p *Pet) Secret() int { return p.secret }

type Owner struct {
	Pet
	Nick  string
	inner Label
}

type Opts struct {
	Verbose bool
	Scale   int
}

// Norm is a converter living in an imported package.
func Norm(s string) string { return s }

// NormErr is an error-returning converter living in an imported package.
func NormErr(s string) (string, error) { return s, nil }

// PostPet is an imported hook.
func PostPet(dst *Pet, src *Pet) {}

func hidden(s string) string { return s }

// Profile is an imported source type with getters.
type Profile struct {
	Nick    string
	inner   Label
	Visible int
	score   int
}

func (p *Profile) Inner() Label          { return p.inner }
func (p *Profile) Score() int            { return p.score }
func (p *Profile) hiddenGetter() int     { return p.score }
func (p Profile) ByValue() string        { return p.Nick }
func (p *Profile) Failing() (int, error) { return 0, nil }

// Box / Box2: differing struct types (copied member-wise) whose members are an anonymous struct
// with unexported members and values of a package the setup file does not import.
type Box struct {
	Anon struct {
		Pub  int
		priv int
	}
	T    ext2.T
	Ts   []ext2.T
	Code ext2.Code
}

type Box2 struct {
	Anon struct {
		Pub  int
		priv int
		More int
	}
	T    ext2.T
	Ts   []ext2.T
	Code ext2.Code
	Pad  int
}

// Stamp has unexported members only.
type Stamp struct{ sec int64 }

type kind int

// Exp / Exp2: exported fields of an unexported type.
type Exp struct {
	K  kind
	Ks []kind
	// element types that mention the unexported type in a map key / value / array / channel
	ByKind  []map[kind]int
	ToKind  []map[string]kind
	KindArr [][2]kind
}

type Exp2 struct {
	K       kind
	Ks      []kind
	Pad     int
	ByKind  []map[kind]int
	ToKind  []map[string]kind
	KindArr [][2]kind
}

// CaseTwin has members that differ in letter case only, one of each pair hidden.
type CaseTwin struct {
	name string
	Name string
	Age  int
	age  int
}
