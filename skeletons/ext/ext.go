// Package ext holds the imported types of the skeleton catalogue.
package ext

import "fmt"

type ID int64

func (i ID) String() string { return fmt.Sprint(int64(i)) }

type Label string

type Pet struct {
	ID     ID
	Name   string
	Weight float64
	secret int
	Tags   []string
}

func (p *Pet) Secret() int { return p.secret }

type Owner struct {
	Pet
	Nick  string
	inner Label
}

type Opts struct {
	Verbose bool
	Scale   int
}

// Norm is a converter living in an imported package.
func Norm(s string) string { return s }

// NormErr is an error-returning converter living in an imported package.
func NormErr(s string) (string, error) { return s, nil }

// PostPet is an imported hook.
func PostPet(dst *Pet, src *Pet) {}

func hidden(s string) string { return s }

// Profile is an imported source type with getters.
type Profile struct {
	Nick    string
	inner   Label
	Visible int
	score   int
}

func (p *Profile) Inner() Label       { return p.inner }
func (p *Profile) Score() int         { return p.score }
func (p *Profile) hiddenGetter() int  { return p.score }
func (p Profile) ByValue() string     { return p.Nick }
func (p *Profile) Failing() (int, error) { return 0, nil }
