// Package cross: two converter interfaces whose methods copy between the same types, so that the
// same destination paths come up in several methods of one run.
package cross

type Inner struct {
	Public string
	Secret string
}

type Src struct {
	ID    int
	Name  string
	Inner Inner
}

type Dst struct {
	ID    int
	Name  string
	Inner Inner
}
