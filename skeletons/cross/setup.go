//go:build convergen

package cross

type Convergen interface {
	// :@A1@
	Alpha(*Src) *Dst
	// :@B1@
	Beta(*Src) *Dst
}

// :convergen
type Second interface {
	// :@C1@
	Gamma(*Src) *Dst
}
