package dot

// The hand-written code of the package already calls the functions that are to be generated.
// While the generator loads the package (the output does not exist yet, or is withheld) these
// names are undefined: type errors of the package that are none of the converter interface's -
// although, by line number alone, they stand where the setup file has its converter interface.

//
//
//
//
//
//
var (
	UsedAtoB = AtoB(&A{Name: "a"})
	UsedBtoA = BtoA(&B{Name: "b"})
)
