//go:build convergen

package dot

import (
	. "verifsk/lib/v2"

	pets "verifsk/ext"
)

var _ Kind

type Convergen interface {
	// :conv Norm Name
	AtoB(*A) *B
	// :conv Local Name
	// :@S1@
	BtoA(*B) *A
	// the hook lives in a package the setup file imports under another name
	// :postprocess pets.PostPet
	// :conv pets.Norm Name
	Clone(*pets.Pet) *pets.Pet
}
