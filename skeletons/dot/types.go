// Package dot: the setup file dot-imports a helper package; its functions are in scope under
// their bare names, which is the only way a notation can name them.
package dot

type A struct {
	Name string
	Kind int
}

type B struct {
	Name string
	Kind int
}

// Local is a converter of this package.
func Local(s string) string { return s }
