//go:build convergen

package names

import "verifsk/ext"

type Convergen interface {
	Local(*Src) *Dst
	Imported(*ext.Profile) *DstP
	ImportedVal(ext.Profile) DstP
}
