package names

import "verifsk/ext"

// Level has String() on the pointer receiver only.
type Level int

func (l *Level) String() string { return "level" }

// Kind has String() on the value receiver.
type Kind int

func (k Kind) String() string { return "kind" }

type Src struct {
	Same      int
	lower     int
	MixedCase int
	Both      string
	hidden    string
	score     int
	kind      Kind
	level     Level
	PLevel    *Level
	VLevel    Level
	wide      int64
	twin      int // same name as Twin up to case, but of a type that does not fit
	Twin      string
}

func (s *Src) Both2() string        { return s.Both }
func (s *Src) Hidden() string       { return s.hidden }
func (s *Src) Score() (int, error)  { return s.score, nil }
func (s *Src) ParamM(x int) int     { return x }
func (s *Src) Kind() Kind           { return s.kind }
func (s *Src) Level() Level         { return s.level }
func (s *Src) NoResult()            {}
func (s Src) ValueRecv() string     { return s.Both }
func (s *Src) Wide() int32          { return 0 }
func (s *Src) unexportedGetter() int { return 1 }

type Dst struct {
	Same             int
	lower            int
	Mixedcase        int
	Both             string
	Both2            string
	Hidden           string
	Score            int
	ParamM           int
	Kind             string
	Level            string
	PLevel           string
	VLevel           string
	NoResult         int
	ValueRecv        string
	Wide             int64
	UnexportedGetter int
	Nothing          int
	Twin             string
}

// DstP receives from the imported ext.Profile.
type DstP struct {
	Nick         string
	Inner        ext.Label
	Visible      int
	Score        int
	HiddenGetter int
	ByValue      string
	Failing      int
}
