// Package ext (directory samename) has the same package NAME as the imported verifsk/ext.
package ext

import store "verifsk/ext"

type Src struct {
	ID     store.ID
	Name   string
	secret int
}

var _ store.Pet
