//go:build convergen

package ext

import store "verifsk/ext"

type Convergen interface {
	// ToStore copies into the imported struct (which has unexported members).
	ToStore(*Src) *store.Pet
	// FromStore copies from the imported struct.
	FromStore(*store.Pet) *Src
}
