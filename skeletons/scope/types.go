package scope

type Status int

func (s Status) String() string { return "s" }

type Src struct {
	ID     int
	Name   string
	Status Status
	secret string
}

func (s *Src) Secret() string { return s.secret }

type Dst struct {
	ID     int64
	name   string
	Status string
	Secret string
}

func Conv1(s string) string { return s }
