//go:build convergen

package scope

// :@I1@
// :@I2@
type Convergen interface {
	// :@A1@
	// :@A2@
	Aa(*Src) *Dst
	// :@B1@
	Bb(*Src) *Dst
}

// :convergen
// :@J1@
type Second interface {
	// :@C1@
	Cc(*Src) *Dst
	Dd(*Src) *Dst
}
