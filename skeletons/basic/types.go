package basic

import "verifsk/ext"

type Status int

func (s Status) String() string { return "status" }

type Src struct {
	ID     int
	Name   string
	Status Status
	Age    int32
	Pet    *ext.Pet
	Tags   []string
	note   string
}

func (s *Src) Note() string { return s.note }

type Dst struct {
	ID     int64
	Name   string
	Status string
	Age    int64
	Pet    *ext.Pet
	Tags   []string
	Note   string
}

func Upper(s string) string { return s }

func Check(dst *Dst, src *Src) error { return nil }
