//go:build convergen

package basic

//go:generate go run github.com/reedom/convergen
// :@S1@
type Convergen interface {
	// ToDst copies a Src.
	// :@S2@
	// :@S3@
	ToDst(*Src) *Dst
	// :@S4@
	ToDstErr(src *Src) (dst *Dst, err error)
}
