package types

import (
	"unsafe"

	"verifsk/ext"
	"verifsk/ext2"
)

type MyInt int

type MyStr string

func (m MyStr) String() string { return string(m) }

type fmtStringer interface{ String() string }

type S1 struct {
	X int
	Y string
}

type S2 struct {
	X int64
	Y string
	Z bool
}

// S3 has the same underlying type as S1.
type S3 struct {
	X int
	Y string
}

type Empty struct{}

var _ ext.ID

type Src struct {
	F00 int
	F01 int32
	F02 int64
	F03 uint8
	F04 float64
	F05 string
	F06 bool
	F07 MyInt
	F08 MyStr
	F09 ext.ID
	F10 ext.Label
	F11 S1
	F12 S2
	F13 S3
	F14 Empty
	F15 ext.Pet
	F16 struct{ X int }
	F17 *S1
	F18 **S1
	F19 *int
	F20 []int
	F21 []MyInt
	F22 []S1
	F23 []*S1
	F24 [][]S1
	F25 []string
	F26 []interface{}
	F27 []ext.Pet
	F28 map[string]int
	F29 interface{}
	F30 error
	F31 func()
	F32 chan int
	F33 [2]int
	F34 fmtStringer
	F35 *MyInt
	F36 *S3
	F37 *ext.ID
	F38 []*S3
	F39 []*MyInt
	F40 ext.Box
	F41 []ext2.T
	F42 ext2.Code
	F43 *error
	F44 unsafe.Pointer
	F45 *fmtStringer
}

// Dst00: every field has type int.
type Dst00 struct {
	F00 int
	F01 int
	F02 int
	F03 int
	F04 int
	F05 int
	F06 int
	F07 int
	F08 int
	F09 int
	F10 int
	F11 int
	F12 int
	F13 int
	F14 int
	F15 int
	F16 int
	F17 int
	F18 int
	F19 int
	F20 int
	F21 int
	F22 int
	F23 int
	F24 int
	F25 int
	F26 int
	F27 int
	F28 int
	F29 int
	F30 int
	F31 int
	F32 int
	F33 int
	F34 int
	F35 int
	F36 int
	F37 int
	F38 int
	F39 int
	F40 int
	F41 int
	F42 int
	F43 int
	F44 int
	F45 int
}

// Dst01: every field has type int32.
type Dst01 struct {
	F00 int32
	F01 int32
	F02 int32
	F03 int32
	F04 int32
	F05 int32
	F06 int32
	F07 int32
	F08 int32
	F09 int32
	F10 int32
	F11 int32
	F12 int32
	F13 int32
	F14 int32
	F15 int32
	F16 int32
	F17 int32
	F18 int32
	F19 int32
	F20 int32
	F21 int32
	F22 int32
	F23 int32
	F24 int32
	F25 int32
	F26 int32
	F27 int32
	F28 int32
	F29 int32
	F30 int32
	F31 int32
	F32 int32
	F33 int32
	F34 int32
	F35 int32
	F36 int32
	F37 int32
	F38 int32
	F39 int32
	F40 int32
	F41 int32
	F42 int32
	F43 int32
	F44 int32
	F45 int32
}

// Dst02: every field has type int64.
type Dst02 struct {
	F00 int64
	F01 int64
	F02 int64
	F03 int64
	F04 int64
	F05 int64
	F06 int64
	F07 int64
	F08 int64
	F09 int64
	F10 int64
	F11 int64
	F12 int64
	F13 int64
	F14 int64
	F15 int64
	F16 int64
	F17 int64
	F18 int64
	F19 int64
	F20 int64
	F21 int64
	F22 int64
	F23 int64
	F24 int64
	F25 int64
	F26 int64
	F27 int64
	F28 int64
	F29 int64
	F30 int64
	F31 int64
	F32 int64
	F33 int64
	F34 int64
	F35 int64
	F36 int64
	F37 int64
	F38 int64
	F39 int64
	F40 int64
	F41 int64
	F42 int64
	F43 int64
	F44 int64
	F45 int64
}

// Dst03: every field has type uint8.
type Dst03 struct {
	F00 uint8
	F01 uint8
	F02 uint8
	F03 uint8
	F04 uint8
	F05 uint8
	F06 uint8
	F07 uint8
	F08 uint8
	F09 uint8
	F10 uint8
	F11 uint8
	F12 uint8
	F13 uint8
	F14 uint8
	F15 uint8
	F16 uint8
	F17 uint8
	F18 uint8
	F19 uint8
	F20 uint8
	F21 uint8
	F22 uint8
	F23 uint8
	F24 uint8
	F25 uint8
	F26 uint8
	F27 uint8
	F28 uint8
	F29 uint8
	F30 uint8
	F31 uint8
	F32 uint8
	F33 uint8
	F34 uint8
	F35 uint8
	F36 uint8
	F37 uint8
	F38 uint8
	F39 uint8
	F40 uint8
	F41 uint8
	F42 uint8
	F43 uint8
	F44 uint8
	F45 uint8
}

// Dst04: every field has type float64.
type Dst04 struct {
	F00 float64
	F01 float64
	F02 float64
	F03 float64
	F04 float64
	F05 float64
	F06 float64
	F07 float64
	F08 float64
	F09 float64
	F10 float64
	F11 float64
	F12 float64
	F13 float64
	F14 float64
	F15 float64
	F16 float64
	F17 float64
	F18 float64
	F19 float64
	F20 float64
	F21 float64
	F22 float64
	F23 float64
	F24 float64
	F25 float64
	F26 float64
	F27 float64
	F28 float64
	F29 float64
	F30 float64
	F31 float64
	F32 float64
	F33 float64
	F34 float64
	F35 float64
	F36 float64
	F37 float64
	F38 float64
	F39 float64
	F40 float64
	F41 float64
	F42 float64
	F43 float64
	F44 float64
	F45 float64
}

// Dst05: every field has type string.
type Dst05 struct {
	F00 string
	F01 string
	F02 string
	F03 string
	F04 string
	F05 string
	F06 string
	F07 string
	F08 string
	F09 string
	F10 string
	F11 string
	F12 string
	F13 string
	F14 string
	F15 string
	F16 string
	F17 string
	F18 string
	F19 string
	F20 string
	F21 string
	F22 string
	F23 string
	F24 string
	F25 string
	F26 string
	F27 string
	F28 string
	F29 string
	F30 string
	F31 string
	F32 string
	F33 string
	F34 string
	F35 string
	F36 string
	F37 string
	F38 string
	F39 string
	F40 string
	F41 string
	F42 string
	F43 string
	F44 string
	F45 string
}

// Dst06: every field has type bool.
type Dst06 struct {
	F00 bool
	F01 bool
	F02 bool
	F03 bool
	F04 bool
	F05 bool
	F06 bool
	F07 bool
	F08 bool
	F09 bool
	F10 bool
	F11 bool
	F12 bool
	F13 bool
	F14 bool
	F15 bool
	F16 bool
	F17 bool
	F18 bool
	F19 bool
	F20 bool
	F21 bool
	F22 bool
	F23 bool
	F24 bool
	F25 bool
	F26 bool
	F27 bool
	F28 bool
	F29 bool
	F30 bool
	F31 bool
	F32 bool
	F33 bool
	F34 bool
	F35 bool
	F36 bool
	F37 bool
	F38 bool
	F39 bool
	F40 bool
	F41 bool
	F42 bool
	F43 bool
	F44 bool
	F45 bool
}

// Dst07: every field has type MyInt.
type Dst07 struct {
	F00 MyInt
	F01 MyInt
	F02 MyInt
	F03 MyInt
	F04 MyInt
	F05 MyInt
	F06 MyInt
	F07 MyInt
	F08 MyInt
	F09 MyInt
	F10 MyInt
	F11 MyInt
	F12 MyInt
	F13 MyInt
	F14 MyInt
	F15 MyInt
	F16 MyInt
	F17 MyInt
	F18 MyInt
	F19 MyInt
	F20 MyInt
	F21 MyInt
	F22 MyInt
	F23 MyInt
	F24 MyInt
	F25 MyInt
	F26 MyInt
	F27 MyInt
	F28 MyInt
	F29 MyInt
	F30 MyInt
	F31 MyInt
	F32 MyInt
	F33 MyInt
	F34 MyInt
	F35 MyInt
	F36 MyInt
	F37 MyInt
	F38 MyInt
	F39 MyInt
	F40 MyInt
	F41 MyInt
	F42 MyInt
	F43 MyInt
	F44 MyInt
	F45 MyInt
}

// Dst08: every field has type MyStr.
type Dst08 struct {
	F00 MyStr
	F01 MyStr
	F02 MyStr
	F03 MyStr
	F04 MyStr
	F05 MyStr
	F06 MyStr
	F07 MyStr
	F08 MyStr
	F09 MyStr
	F10 MyStr
	F11 MyStr
	F12 MyStr
	F13 MyStr
	F14 MyStr
	F15 MyStr
	F16 MyStr
	F17 MyStr
	F18 MyStr
	F19 MyStr
	F20 MyStr
	F21 MyStr
	F22 MyStr
	F23 MyStr
	F24 MyStr
	F25 MyStr
	F26 MyStr
	F27 MyStr
	F28 MyStr
	F29 MyStr
	F30 MyStr
	F31 MyStr
	F32 MyStr
	F33 MyStr
	F34 MyStr
	F35 MyStr
	F36 MyStr
	F37 MyStr
	F38 MyStr
	F39 MyStr
	F40 MyStr
	F41 MyStr
	F42 MyStr
	F43 MyStr
	F44 MyStr
	F45 MyStr
}

// Dst09: every field has type ext.ID.
type Dst09 struct {
	F00 ext.ID
	F01 ext.ID
	F02 ext.ID
	F03 ext.ID
	F04 ext.ID
	F05 ext.ID
	F06 ext.ID
	F07 ext.ID
	F08 ext.ID
	F09 ext.ID
	F10 ext.ID
	F11 ext.ID
	F12 ext.ID
	F13 ext.ID
	F14 ext.ID
	F15 ext.ID
	F16 ext.ID
	F17 ext.ID
	F18 ext.ID
	F19 ext.ID
	F20 ext.ID
	F21 ext.ID
	F22 ext.ID
	F23 ext.ID
	F24 ext.ID
	F25 ext.ID
	F26 ext.ID
	F27 ext.ID
	F28 ext.ID
	F29 ext.ID
	F30 ext.ID
	F31 ext.ID
	F32 ext.ID
	F33 ext.ID
	F34 ext.ID
	F35 ext.ID
	F36 ext.ID
	F37 ext.ID
	F38 ext.ID
	F39 ext.ID
	F40 ext.ID
	F41 ext.ID
	F42 ext.ID
	F43 ext.ID
	F44 ext.ID
	F45 ext.ID
}

// Dst10: every field has type ext.Label.
type Dst10 struct {
	F00 ext.Label
	F01 ext.Label
	F02 ext.Label
	F03 ext.Label
	F04 ext.Label
	F05 ext.Label
	F06 ext.Label
	F07 ext.Label
	F08 ext.Label
	F09 ext.Label
	F10 ext.Label
	F11 ext.Label
	F12 ext.Label
	F13 ext.Label
	F14 ext.Label
	F15 ext.Label
	F16 ext.Label
	F17 ext.Label
	F18 ext.Label
	F19 ext.Label
	F20 ext.Label
	F21 ext.Label
	F22 ext.Label
	F23 ext.Label
	F24 ext.Label
	F25 ext.Label
	F26 ext.Label
	F27 ext.Label
	F28 ext.Label
	F29 ext.Label
	F30 ext.Label
	F31 ext.Label
	F32 ext.Label
	F33 ext.Label
	F34 ext.Label
	F35 ext.Label
	F36 ext.Label
	F37 ext.Label
	F38 ext.Label
	F39 ext.Label
	F40 ext.Label
	F41 ext.Label
	F42 ext.Label
	F43 ext.Label
	F44 ext.Label
	F45 ext.Label
}

// Dst11: every field has type S1.
type Dst11 struct {
	F00 S1
	F01 S1
	F02 S1
	F03 S1
	F04 S1
	F05 S1
	F06 S1
	F07 S1
	F08 S1
	F09 S1
	F10 S1
	F11 S1
	F12 S1
	F13 S1
	F14 S1
	F15 S1
	F16 S1
	F17 S1
	F18 S1
	F19 S1
	F20 S1
	F21 S1
	F22 S1
	F23 S1
	F24 S1
	F25 S1
	F26 S1
	F27 S1
	F28 S1
	F29 S1
	F30 S1
	F31 S1
	F32 S1
	F33 S1
	F34 S1
	F35 S1
	F36 S1
	F37 S1
	F38 S1
	F39 S1
	F40 S1
	F41 S1
	F42 S1
	F43 S1
	F44 S1
	F45 S1
}

// Dst12: every field has type S2.
type Dst12 struct {
	F00 S2
	F01 S2
	F02 S2
	F03 S2
	F04 S2
	F05 S2
	F06 S2
	F07 S2
	F08 S2
	F09 S2
	F10 S2
	F11 S2
	F12 S2
	F13 S2
	F14 S2
	F15 S2
	F16 S2
	F17 S2
	F18 S2
	F19 S2
	F20 S2
	F21 S2
	F22 S2
	F23 S2
	F24 S2
	F25 S2
	F26 S2
	F27 S2
	F28 S2
	F29 S2
	F30 S2
	F31 S2
	F32 S2
	F33 S2
	F34 S2
	F35 S2
	F36 S2
	F37 S2
	F38 S2
	F39 S2
	F40 S2
	F41 S2
	F42 S2
	F43 S2
	F44 S2
	F45 S2
}

// Dst13: every field has type S3.
type Dst13 struct {
	F00 S3
	F01 S3
	F02 S3
	F03 S3
	F04 S3
	F05 S3
	F06 S3
	F07 S3
	F08 S3
	F09 S3
	F10 S3
	F11 S3
	F12 S3
	F13 S3
	F14 S3
	F15 S3
	F16 S3
	F17 S3
	F18 S3
	F19 S3
	F20 S3
	F21 S3
	F22 S3
	F23 S3
	F24 S3
	F25 S3
	F26 S3
	F27 S3
	F28 S3
	F29 S3
	F30 S3
	F31 S3
	F32 S3
	F33 S3
	F34 S3
	F35 S3
	F36 S3
	F37 S3
	F38 S3
	F39 S3
	F40 S3
	F41 S3
	F42 S3
	F43 S3
	F44 S3
	F45 S3
}

// Dst14: every field has type Empty.
type Dst14 struct {
	F00 Empty
	F01 Empty
	F02 Empty
	F03 Empty
	F04 Empty
	F05 Empty
	F06 Empty
	F07 Empty
	F08 Empty
	F09 Empty
	F10 Empty
	F11 Empty
	F12 Empty
	F13 Empty
	F14 Empty
	F15 Empty
	F16 Empty
	F17 Empty
	F18 Empty
	F19 Empty
	F20 Empty
	F21 Empty
	F22 Empty
	F23 Empty
	F24 Empty
	F25 Empty
	F26 Empty
	F27 Empty
	F28 Empty
	F29 Empty
	F30 Empty
	F31 Empty
	F32 Empty
	F33 Empty
	F34 Empty
	F35 Empty
	F36 Empty
	F37 Empty
	F38 Empty
	F39 Empty
	F40 Empty
	F41 Empty
	F42 Empty
	F43 Empty
	F44 Empty
	F45 Empty
}

// Dst15: every field has type ext.Pet.
type Dst15 struct {
	F00 ext.Pet
	F01 ext.Pet
	F02 ext.Pet
	F03 ext.Pet
	F04 ext.Pet
	F05 ext.Pet
	F06 ext.Pet
	F07 ext.Pet
	F08 ext.Pet
	F09 ext.Pet
	F10 ext.Pet
	F11 ext.Pet
	F12 ext.Pet
	F13 ext.Pet
	F14 ext.Pet
	F15 ext.Pet
	F16 ext.Pet
	F17 ext.Pet
	F18 ext.Pet
	F19 ext.Pet
	F20 ext.Pet
	F21 ext.Pet
	F22 ext.Pet
	F23 ext.Pet
	F24 ext.Pet
	F25 ext.Pet
	F26 ext.Pet
	F27 ext.Pet
	F28 ext.Pet
	F29 ext.Pet
	F30 ext.Pet
	F31 ext.Pet
	F32 ext.Pet
	F33 ext.Pet
	F34 ext.Pet
	F35 ext.Pet
	F36 ext.Pet
	F37 ext.Pet
	F38 ext.Pet
	F39 ext.Pet
	F40 ext.Pet
	F41 ext.Pet
	F42 ext.Pet
	F43 ext.Pet
	F44 ext.Pet
	F45 ext.Pet
}

// Dst16: every field has type struct{ X int }.
type Dst16 struct {
	F00 struct{ X int }
	F01 struct{ X int }
	F02 struct{ X int }
	F03 struct{ X int }
	F04 struct{ X int }
	F05 struct{ X int }
	F06 struct{ X int }
	F07 struct{ X int }
	F08 struct{ X int }
	F09 struct{ X int }
	F10 struct{ X int }
	F11 struct{ X int }
	F12 struct{ X int }
	F13 struct{ X int }
	F14 struct{ X int }
	F15 struct{ X int }
	F16 struct{ X int }
	F17 struct{ X int }
	F18 struct{ X int }
	F19 struct{ X int }
	F20 struct{ X int }
	F21 struct{ X int }
	F22 struct{ X int }
	F23 struct{ X int }
	F24 struct{ X int }
	F25 struct{ X int }
	F26 struct{ X int }
	F27 struct{ X int }
	F28 struct{ X int }
	F29 struct{ X int }
	F30 struct{ X int }
	F31 struct{ X int }
	F32 struct{ X int }
	F33 struct{ X int }
	F34 struct{ X int }
	F35 struct{ X int }
	F36 struct{ X int }
	F37 struct{ X int }
	F38 struct{ X int }
	F39 struct{ X int }
	F40 struct{ X int }
	F41 struct{ X int }
	F42 struct{ X int }
	F43 struct{ X int }
	F44 struct{ X int }
	F45 struct{ X int }
}

// Dst17: every field has type *S1.
type Dst17 struct {
	F00 *S1
	F01 *S1
	F02 *S1
	F03 *S1
	F04 *S1
	F05 *S1
	F06 *S1
	F07 *S1
	F08 *S1
	F09 *S1
	F10 *S1
	F11 *S1
	F12 *S1
	F13 *S1
	F14 *S1
	F15 *S1
	F16 *S1
	F17 *S1
	F18 *S1
	F19 *S1
	F20 *S1
	F21 *S1
	F22 *S1
	F23 *S1
	F24 *S1
	F25 *S1
	F26 *S1
	F27 *S1
	F28 *S1
	F29 *S1
	F30 *S1
	F31 *S1
	F32 *S1
	F33 *S1
	F34 *S1
	F35 *S1
	F36 *S1
	F37 *S1
	F38 *S1
	F39 *S1
	F40 *S1
	F41 *S1
	F42 *S1
	F43 *S1
	F44 *S1
	F45 *S1
}

// Dst18: every field has type **S1.
type Dst18 struct {
	F00 **S1
	F01 **S1
	F02 **S1
	F03 **S1
	F04 **S1
	F05 **S1
	F06 **S1
	F07 **S1
	F08 **S1
	F09 **S1
	F10 **S1
	F11 **S1
	F12 **S1
	F13 **S1
	F14 **S1
	F15 **S1
	F16 **S1
	F17 **S1
	F18 **S1
	F19 **S1
	F20 **S1
	F21 **S1
	F22 **S1
	F23 **S1
	F24 **S1
	F25 **S1
	F26 **S1
	F27 **S1
	F28 **S1
	F29 **S1
	F30 **S1
	F31 **S1
	F32 **S1
	F33 **S1
	F34 **S1
	F35 **S1
	F36 **S1
	F37 **S1
	F38 **S1
	F39 **S1
	F40 **S1
	F41 **S1
	F42 **S1
	F43 **S1
	F44 **S1
	F45 **S1
}

// Dst19: every field has type *int.
type Dst19 struct {
	F00 *int
	F01 *int
	F02 *int
	F03 *int
	F04 *int
	F05 *int
	F06 *int
	F07 *int
	F08 *int
	F09 *int
	F10 *int
	F11 *int
	F12 *int
	F13 *int
	F14 *int
	F15 *int
	F16 *int
	F17 *int
	F18 *int
	F19 *int
	F20 *int
	F21 *int
	F22 *int
	F23 *int
	F24 *int
	F25 *int
	F26 *int
	F27 *int
	F28 *int
	F29 *int
	F30 *int
	F31 *int
	F32 *int
	F33 *int
	F34 *int
	F35 *int
	F36 *int
	F37 *int
	F38 *int
	F39 *int
	F40 *int
	F41 *int
	F42 *int
	F43 *int
	F44 *int
	F45 *int
}

// Dst20: every field has type []int.
type Dst20 struct {
	F00 []int
	F01 []int
	F02 []int
	F03 []int
	F04 []int
	F05 []int
	F06 []int
	F07 []int
	F08 []int
	F09 []int
	F10 []int
	F11 []int
	F12 []int
	F13 []int
	F14 []int
	F15 []int
	F16 []int
	F17 []int
	F18 []int
	F19 []int
	F20 []int
	F21 []int
	F22 []int
	F23 []int
	F24 []int
	F25 []int
	F26 []int
	F27 []int
	F28 []int
	F29 []int
	F30 []int
	F31 []int
	F32 []int
	F33 []int
	F34 []int
	F35 []int
	F36 []int
	F37 []int
	F38 []int
	F39 []int
	F40 []int
	F41 []int
	F42 []int
	F43 []int
	F44 []int
	F45 []int
}

// Dst21: every field has type []MyInt.
type Dst21 struct {
	F00 []MyInt
	F01 []MyInt
	F02 []MyInt
	F03 []MyInt
	F04 []MyInt
	F05 []MyInt
	F06 []MyInt
	F07 []MyInt
	F08 []MyInt
	F09 []MyInt
	F10 []MyInt
	F11 []MyInt
	F12 []MyInt
	F13 []MyInt
	F14 []MyInt
	F15 []MyInt
	F16 []MyInt
	F17 []MyInt
	F18 []MyInt
	F19 []MyInt
	F20 []MyInt
	F21 []MyInt
	F22 []MyInt
	F23 []MyInt
	F24 []MyInt
	F25 []MyInt
	F26 []MyInt
	F27 []MyInt
	F28 []MyInt
	F29 []MyInt
	F30 []MyInt
	F31 []MyInt
	F32 []MyInt
	F33 []MyInt
	F34 []MyInt
	F35 []MyInt
	F36 []MyInt
	F37 []MyInt
	F38 []MyInt
	F39 []MyInt
	F40 []MyInt
	F41 []MyInt
	F42 []MyInt
	F43 []MyInt
	F44 []MyInt
	F45 []MyInt
}

// Dst22: every field has type []S1.
type Dst22 struct {
	F00 []S1
	F01 []S1
	F02 []S1
	F03 []S1
	F04 []S1
	F05 []S1
	F06 []S1
	F07 []S1
	F08 []S1
	F09 []S1
	F10 []S1
	F11 []S1
	F12 []S1
	F13 []S1
	F14 []S1
	F15 []S1
	F16 []S1
	F17 []S1
	F18 []S1
	F19 []S1
	F20 []S1
	F21 []S1
	F22 []S1
	F23 []S1
	F24 []S1
	F25 []S1
	F26 []S1
	F27 []S1
	F28 []S1
	F29 []S1
	F30 []S1
	F31 []S1
	F32 []S1
	F33 []S1
	F34 []S1
	F35 []S1
	F36 []S1
	F37 []S1
	F38 []S1
	F39 []S1
	F40 []S1
	F41 []S1
	F42 []S1
	F43 []S1
	F44 []S1
	F45 []S1
}

// Dst23: every field has type []*S1.
type Dst23 struct {
	F00 []*S1
	F01 []*S1
	F02 []*S1
	F03 []*S1
	F04 []*S1
	F05 []*S1
	F06 []*S1
	F07 []*S1
	F08 []*S1
	F09 []*S1
	F10 []*S1
	F11 []*S1
	F12 []*S1
	F13 []*S1
	F14 []*S1
	F15 []*S1
	F16 []*S1
	F17 []*S1
	F18 []*S1
	F19 []*S1
	F20 []*S1
	F21 []*S1
	F22 []*S1
	F23 []*S1
	F24 []*S1
	F25 []*S1
	F26 []*S1
	F27 []*S1
	F28 []*S1
	F29 []*S1
	F30 []*S1
	F31 []*S1
	F32 []*S1
	F33 []*S1
	F34 []*S1
	F35 []*S1
	F36 []*S1
	F37 []*S1
	F38 []*S1
	F39 []*S1
	F40 []*S1
	F41 []*S1
	F42 []*S1
	F43 []*S1
	F44 []*S1
	F45 []*S1
}

// Dst24: every field has type [][]S1.
type Dst24 struct {
	F00 [][]S1
	F01 [][]S1
	F02 [][]S1
	F03 [][]S1
	F04 [][]S1
	F05 [][]S1
	F06 [][]S1
	F07 [][]S1
	F08 [][]S1
	F09 [][]S1
	F10 [][]S1
	F11 [][]S1
	F12 [][]S1
	F13 [][]S1
	F14 [][]S1
	F15 [][]S1
	F16 [][]S1
	F17 [][]S1
	F18 [][]S1
	F19 [][]S1
	F20 [][]S1
	F21 [][]S1
	F22 [][]S1
	F23 [][]S1
	F24 [][]S1
	F25 [][]S1
	F26 [][]S1
	F27 [][]S1
	F28 [][]S1
	F29 [][]S1
	F30 [][]S1
	F31 [][]S1
	F32 [][]S1
	F33 [][]S1
	F34 [][]S1
	F35 [][]S1
	F36 [][]S1
	F37 [][]S1
	F38 [][]S1
	F39 [][]S1
	F40 [][]S1
	F41 [][]S1
	F42 [][]S1
	F43 [][]S1
	F44 [][]S1
	F45 [][]S1
}

// Dst25: every field has type []string.
type Dst25 struct {
	F00 []string
	F01 []string
	F02 []string
	F03 []string
	F04 []string
	F05 []string
	F06 []string
	F07 []string
	F08 []string
	F09 []string
	F10 []string
	F11 []string
	F12 []string
	F13 []string
	F14 []string
	F15 []string
	F16 []string
	F17 []string
	F18 []string
	F19 []string
	F20 []string
	F21 []string
	F22 []string
	F23 []string
	F24 []string
	F25 []string
	F26 []string
	F27 []string
	F28 []string
	F29 []string
	F30 []string
	F31 []string
	F32 []string
	F33 []string
	F34 []string
	F35 []string
	F36 []string
	F37 []string
	F38 []string
	F39 []string
	F40 []string
	F41 []string
	F42 []string
	F43 []string
	F44 []string
	F45 []string
}

// Dst26: every field has type []interface{}.
type Dst26 struct {
	F00 []interface{}
	F01 []interface{}
	F02 []interface{}
	F03 []interface{}
	F04 []interface{}
	F05 []interface{}
	F06 []interface{}
	F07 []interface{}
	F08 []interface{}
	F09 []interface{}
	F10 []interface{}
	F11 []interface{}
	F12 []interface{}
	F13 []interface{}
	F14 []interface{}
	F15 []interface{}
	F16 []interface{}
	F17 []interface{}
	F18 []interface{}
	F19 []interface{}
	F20 []interface{}
	F21 []interface{}
	F22 []interface{}
	F23 []interface{}
	F24 []interface{}
	F25 []interface{}
	F26 []interface{}
	F27 []interface{}
	F28 []interface{}
	F29 []interface{}
	F30 []interface{}
	F31 []interface{}
	F32 []interface{}
	F33 []interface{}
	F34 []interface{}
	F35 []interface{}
	F36 []interface{}
	F37 []interface{}
	F38 []interface{}
	F39 []interface{}
	F40 []interface{}
	F41 []interface{}
	F42 []interface{}
	F43 []interface{}
	F44 []interface{}
	F45 []interface{}
}

// Dst27: every field has type []ext.Pet.
type Dst27 struct {
	F00 []ext.Pet
	F01 []ext.Pet
	F02 []ext.Pet
	F03 []ext.Pet
	F04 []ext.Pet
	F05 []ext.Pet
	F06 []ext.Pet
	F07 []ext.Pet
	F08 []ext.Pet
	F09 []ext.Pet
	F10 []ext.Pet
	F11 []ext.Pet
	F12 []ext.Pet
	F13 []ext.Pet
	F14 []ext.Pet
	F15 []ext.Pet
	F16 []ext.Pet
	F17 []ext.Pet
	F18 []ext.Pet
	F19 []ext.Pet
	F20 []ext.Pet
	F21 []ext.Pet
	F22 []ext.Pet
	F23 []ext.Pet
	F24 []ext.Pet
	F25 []ext.Pet
	F26 []ext.Pet
	F27 []ext.Pet
	F28 []ext.Pet
	F29 []ext.Pet
	F30 []ext.Pet
	F31 []ext.Pet
	F32 []ext.Pet
	F33 []ext.Pet
	F34 []ext.Pet
	F35 []ext.Pet
	F36 []ext.Pet
	F37 []ext.Pet
	F38 []ext.Pet
	F39 []ext.Pet
	F40 []ext.Pet
	F41 []ext.Pet
	F42 []ext.Pet
	F43 []ext.Pet
	F44 []ext.Pet
	F45 []ext.Pet
}

// Dst28: every field has type map[string]int.
type Dst28 struct {
	F00 map[string]int
	F01 map[string]int
	F02 map[string]int
	F03 map[string]int
	F04 map[string]int
	F05 map[string]int
	F06 map[string]int
	F07 map[string]int
	F08 map[string]int
	F09 map[string]int
	F10 map[string]int
	F11 map[string]int
	F12 map[string]int
	F13 map[string]int
	F14 map[string]int
	F15 map[string]int
	F16 map[string]int
	F17 map[string]int
	F18 map[string]int
	F19 map[string]int
	F20 map[string]int
	F21 map[string]int
	F22 map[string]int
	F23 map[string]int
	F24 map[string]int
	F25 map[string]int
	F26 map[string]int
	F27 map[string]int
	F28 map[string]int
	F29 map[string]int
	F30 map[string]int
	F31 map[string]int
	F32 map[string]int
	F33 map[string]int
	F34 map[string]int
	F35 map[string]int
	F36 map[string]int
	F37 map[string]int
	F38 map[string]int
	F39 map[string]int
	F40 map[string]int
	F41 map[string]int
	F42 map[string]int
	F43 map[string]int
	F44 map[string]int
	F45 map[string]int
}

// Dst29: every field has type interface{}.
type Dst29 struct {
	F00 interface{}
	F01 interface{}
	F02 interface{}
	F03 interface{}
	F04 interface{}
	F05 interface{}
	F06 interface{}
	F07 interface{}
	F08 interface{}
	F09 interface{}
	F10 interface{}
	F11 interface{}
	F12 interface{}
	F13 interface{}
	F14 interface{}
	F15 interface{}
	F16 interface{}
	F17 interface{}
	F18 interface{}
	F19 interface{}
	F20 interface{}
	F21 interface{}
	F22 interface{}
	F23 interface{}
	F24 interface{}
	F25 interface{}
	F26 interface{}
	F27 interface{}
	F28 interface{}
	F29 interface{}
	F30 interface{}
	F31 interface{}
	F32 interface{}
	F33 interface{}
	F34 interface{}
	F35 interface{}
	F36 interface{}
	F37 interface{}
	F38 interface{}
	F39 interface{}
	F40 interface{}
	F41 interface{}
	F42 interface{}
	F43 interface{}
	F44 interface{}
	F45 interface{}
}

// Dst30: every field has type error.
type Dst30 struct {
	F00 error
	F01 error
	F02 error
	F03 error
	F04 error
	F05 error
	F06 error
	F07 error
	F08 error
	F09 error
	F10 error
	F11 error
	F12 error
	F13 error
	F14 error
	F15 error
	F16 error
	F17 error
	F18 error
	F19 error
	F20 error
	F21 error
	F22 error
	F23 error
	F24 error
	F25 error
	F26 error
	F27 error
	F28 error
	F29 error
	F30 error
	F31 error
	F32 error
	F33 error
	F34 error
	F35 error
	F36 error
	F37 error
	F38 error
	F39 error
	F40 error
	F41 error
	F42 error
	F43 error
	F44 error
	F45 error
}

// Dst31: every field has type func().
type Dst31 struct {
	F00 func()
	F01 func()
	F02 func()
	F03 func()
	F04 func()
	F05 func()
	F06 func()
	F07 func()
	F08 func()
	F09 func()
	F10 func()
	F11 func()
	F12 func()
	F13 func()
	F14 func()
	F15 func()
	F16 func()
	F17 func()
	F18 func()
	F19 func()
	F20 func()
	F21 func()
	F22 func()
	F23 func()
	F24 func()
	F25 func()
	F26 func()
	F27 func()
	F28 func()
	F29 func()
	F30 func()
	F31 func()
	F32 func()
	F33 func()
	F34 func()
	F35 func()
	F36 func()
	F37 func()
	F38 func()
	F39 func()
	F40 func()
	F41 func()
	F42 func()
	F43 func()
	F44 func()
	F45 func()
}

// Dst32: every field has type chan int.
type Dst32 struct {
	F00 chan int
	F01 chan int
	F02 chan int
	F03 chan int
	F04 chan int
	F05 chan int
	F06 chan int
	F07 chan int
	F08 chan int
	F09 chan int
	F10 chan int
	F11 chan int
	F12 chan int
	F13 chan int
	F14 chan int
	F15 chan int
	F16 chan int
	F17 chan int
	F18 chan int
	F19 chan int
	F20 chan int
	F21 chan int
	F22 chan int
	F23 chan int
	F24 chan int
	F25 chan int
	F26 chan int
	F27 chan int
	F28 chan int
	F29 chan int
	F30 chan int
	F31 chan int
	F32 chan int
	F33 chan int
	F34 chan int
	F35 chan int
	F36 chan int
	F37 chan int
	F38 chan int
	F39 chan int
	F40 chan int
	F41 chan int
	F42 chan int
	F43 chan int
	F44 chan int
	F45 chan int
}

// Dst33: every field has type [2]int.
type Dst33 struct {
	F00 [2]int
	F01 [2]int
	F02 [2]int
	F03 [2]int
	F04 [2]int
	F05 [2]int
	F06 [2]int
	F07 [2]int
	F08 [2]int
	F09 [2]int
	F10 [2]int
	F11 [2]int
	F12 [2]int
	F13 [2]int
	F14 [2]int
	F15 [2]int
	F16 [2]int
	F17 [2]int
	F18 [2]int
	F19 [2]int
	F20 [2]int
	F21 [2]int
	F22 [2]int
	F23 [2]int
	F24 [2]int
	F25 [2]int
	F26 [2]int
	F27 [2]int
	F28 [2]int
	F29 [2]int
	F30 [2]int
	F31 [2]int
	F32 [2]int
	F33 [2]int
	F34 [2]int
	F35 [2]int
	F36 [2]int
	F37 [2]int
	F38 [2]int
	F39 [2]int
	F40 [2]int
	F41 [2]int
	F42 [2]int
	F43 [2]int
	F44 [2]int
	F45 [2]int
}

// Dst34: every field has type fmtStringer.
type Dst34 struct {
	F00 fmtStringer
	F01 fmtStringer
	F02 fmtStringer
	F03 fmtStringer
	F04 fmtStringer
	F05 fmtStringer
	F06 fmtStringer
	F07 fmtStringer
	F08 fmtStringer
	F09 fmtStringer
	F10 fmtStringer
	F11 fmtStringer
	F12 fmtStringer
	F13 fmtStringer
	F14 fmtStringer
	F15 fmtStringer
	F16 fmtStringer
	F17 fmtStringer
	F18 fmtStringer
	F19 fmtStringer
	F20 fmtStringer
	F21 fmtStringer
	F22 fmtStringer
	F23 fmtStringer
	F24 fmtStringer
	F25 fmtStringer
	F26 fmtStringer
	F27 fmtStringer
	F28 fmtStringer
	F29 fmtStringer
	F30 fmtStringer
	F31 fmtStringer
	F32 fmtStringer
	F33 fmtStringer
	F34 fmtStringer
	F35 fmtStringer
	F36 fmtStringer
	F37 fmtStringer
	F38 fmtStringer
	F39 fmtStringer
	F40 fmtStringer
	F41 fmtStringer
	F42 fmtStringer
	F43 fmtStringer
	F44 fmtStringer
	F45 fmtStringer
}

// Dst35: every field has type *MyInt.
type Dst35 struct {
	F00 *MyInt
	F01 *MyInt
	F02 *MyInt
	F03 *MyInt
	F04 *MyInt
	F05 *MyInt
	F06 *MyInt
	F07 *MyInt
	F08 *MyInt
	F09 *MyInt
	F10 *MyInt
	F11 *MyInt
	F12 *MyInt
	F13 *MyInt
	F14 *MyInt
	F15 *MyInt
	F16 *MyInt
	F17 *MyInt
	F18 *MyInt
	F19 *MyInt
	F20 *MyInt
	F21 *MyInt
	F22 *MyInt
	F23 *MyInt
	F24 *MyInt
	F25 *MyInt
	F26 *MyInt
	F27 *MyInt
	F28 *MyInt
	F29 *MyInt
	F30 *MyInt
	F31 *MyInt
	F32 *MyInt
	F33 *MyInt
	F34 *MyInt
	F35 *MyInt
	F36 *MyInt
	F37 *MyInt
	F38 *MyInt
	F39 *MyInt
	F40 *MyInt
	F41 *MyInt
	F42 *MyInt
	F43 *MyInt
	F44 *MyInt
	F45 *MyInt
}

// Dst36: every field has type *S3.
type Dst36 struct {
	F00 *S3
	F01 *S3
	F02 *S3
	F03 *S3
	F04 *S3
	F05 *S3
	F06 *S3
	F07 *S3
	F08 *S3
	F09 *S3
	F10 *S3
	F11 *S3
	F12 *S3
	F13 *S3
	F14 *S3
	F15 *S3
	F16 *S3
	F17 *S3
	F18 *S3
	F19 *S3
	F20 *S3
	F21 *S3
	F22 *S3
	F23 *S3
	F24 *S3
	F25 *S3
	F26 *S3
	F27 *S3
	F28 *S3
	F29 *S3
	F30 *S3
	F31 *S3
	F32 *S3
	F33 *S3
	F34 *S3
	F35 *S3
	F36 *S3
	F37 *S3
	F38 *S3
	F39 *S3
	F40 *S3
	F41 *S3
	F42 *S3
	F43 *S3
	F44 *S3
	F45 *S3
}

// Dst37: every field has type *ext.ID.
type Dst37 struct {
	F00 *ext.ID
	F01 *ext.ID
	F02 *ext.ID
	F03 *ext.ID
	F04 *ext.ID
	F05 *ext.ID
	F06 *ext.ID
	F07 *ext.ID
	F08 *ext.ID
	F09 *ext.ID
	F10 *ext.ID
	F11 *ext.ID
	F12 *ext.ID
	F13 *ext.ID
	F14 *ext.ID
	F15 *ext.ID
	F16 *ext.ID
	F17 *ext.ID
	F18 *ext.ID
	F19 *ext.ID
	F20 *ext.ID
	F21 *ext.ID
	F22 *ext.ID
	F23 *ext.ID
	F24 *ext.ID
	F25 *ext.ID
	F26 *ext.ID
	F27 *ext.ID
	F28 *ext.ID
	F29 *ext.ID
	F30 *ext.ID
	F31 *ext.ID
	F32 *ext.ID
	F33 *ext.ID
	F34 *ext.ID
	F35 *ext.ID
	F36 *ext.ID
	F37 *ext.ID
	F38 *ext.ID
	F39 *ext.ID
	F40 *ext.ID
	F41 *ext.ID
	F42 *ext.ID
	F43 *ext.ID
	F44 *ext.ID
	F45 *ext.ID
}

// Dst38: every field has type []*S3.
type Dst38 struct {
	F00 []*S3
	F01 []*S3
	F02 []*S3
	F03 []*S3
	F04 []*S3
	F05 []*S3
	F06 []*S3
	F07 []*S3
	F08 []*S3
	F09 []*S3
	F10 []*S3
	F11 []*S3
	F12 []*S3
	F13 []*S3
	F14 []*S3
	F15 []*S3
	F16 []*S3
	F17 []*S3
	F18 []*S3
	F19 []*S3
	F20 []*S3
	F21 []*S3
	F22 []*S3
	F23 []*S3
	F24 []*S3
	F25 []*S3
	F26 []*S3
	F27 []*S3
	F28 []*S3
	F29 []*S3
	F30 []*S3
	F31 []*S3
	F32 []*S3
	F33 []*S3
	F34 []*S3
	F35 []*S3
	F36 []*S3
	F37 []*S3
	F38 []*S3
	F39 []*S3
	F40 []*S3
	F41 []*S3
	F42 []*S3
	F43 []*S3
	F44 []*S3
	F45 []*S3
}

// Dst39: every field has type []*MyInt.
type Dst39 struct {
	F00 []*MyInt
	F01 []*MyInt
	F02 []*MyInt
	F03 []*MyInt
	F04 []*MyInt
	F05 []*MyInt
	F06 []*MyInt
	F07 []*MyInt
	F08 []*MyInt
	F09 []*MyInt
	F10 []*MyInt
	F11 []*MyInt
	F12 []*MyInt
	F13 []*MyInt
	F14 []*MyInt
	F15 []*MyInt
	F16 []*MyInt
	F17 []*MyInt
	F18 []*MyInt
	F19 []*MyInt
	F20 []*MyInt
	F21 []*MyInt
	F22 []*MyInt
	F23 []*MyInt
	F24 []*MyInt
	F25 []*MyInt
	F26 []*MyInt
	F27 []*MyInt
	F28 []*MyInt
	F29 []*MyInt
	F30 []*MyInt
	F31 []*MyInt
	F32 []*MyInt
	F33 []*MyInt
	F34 []*MyInt
	F35 []*MyInt
	F36 []*MyInt
	F37 []*MyInt
	F38 []*MyInt
	F39 []*MyInt
	F40 []*MyInt
	F41 []*MyInt
	F42 []*MyInt
	F43 []*MyInt
	F44 []*MyInt
	F45 []*MyInt
}

// Dst40: every field has type ext.Box.
type Dst40 struct {
	F00 ext.Box
	F01 ext.Box
	F02 ext.Box
	F03 ext.Box
	F04 ext.Box
	F05 ext.Box
	F06 ext.Box
	F07 ext.Box
	F08 ext.Box
	F09 ext.Box
	F10 ext.Box
	F11 ext.Box
	F12 ext.Box
	F13 ext.Box
	F14 ext.Box
	F15 ext.Box
	F16 ext.Box
	F17 ext.Box
	F18 ext.Box
	F19 ext.Box
	F20 ext.Box
	F21 ext.Box
	F22 ext.Box
	F23 ext.Box
	F24 ext.Box
	F25 ext.Box
	F26 ext.Box
	F27 ext.Box
	F28 ext.Box
	F29 ext.Box
	F30 ext.Box
	F31 ext.Box
	F32 ext.Box
	F33 ext.Box
	F34 ext.Box
	F35 ext.Box
	F36 ext.Box
	F37 ext.Box
	F38 ext.Box
	F39 ext.Box
	F40 ext.Box
	F41 ext.Box
	F42 ext.Box
	F43 ext.Box
	F44 ext.Box
	F45 ext.Box
}

// Dst41: every field has type []ext2.T.
type Dst41 struct {
	F00 []ext2.T
	F01 []ext2.T
	F02 []ext2.T
	F03 []ext2.T
	F04 []ext2.T
	F05 []ext2.T
	F06 []ext2.T
	F07 []ext2.T
	F08 []ext2.T
	F09 []ext2.T
	F10 []ext2.T
	F11 []ext2.T
	F12 []ext2.T
	F13 []ext2.T
	F14 []ext2.T
	F15 []ext2.T
	F16 []ext2.T
	F17 []ext2.T
	F18 []ext2.T
	F19 []ext2.T
	F20 []ext2.T
	F21 []ext2.T
	F22 []ext2.T
	F23 []ext2.T
	F24 []ext2.T
	F25 []ext2.T
	F26 []ext2.T
	F27 []ext2.T
	F28 []ext2.T
	F29 []ext2.T
	F30 []ext2.T
	F31 []ext2.T
	F32 []ext2.T
	F33 []ext2.T
	F34 []ext2.T
	F35 []ext2.T
	F36 []ext2.T
	F37 []ext2.T
	F38 []ext2.T
	F39 []ext2.T
	F40 []ext2.T
	F41 []ext2.T
	F42 []ext2.T
	F43 []ext2.T
	F44 []ext2.T
	F45 []ext2.T
}

// Dst42: every field has type ext2.Code.
type Dst42 struct {
	F00 ext2.Code
	F01 ext2.Code
	F02 ext2.Code
	F03 ext2.Code
	F04 ext2.Code
	F05 ext2.Code
	F06 ext2.Code
	F07 ext2.Code
	F08 ext2.Code
	F09 ext2.Code
	F10 ext2.Code
	F11 ext2.Code
	F12 ext2.Code
	F13 ext2.Code
	F14 ext2.Code
	F15 ext2.Code
	F16 ext2.Code
	F17 ext2.Code
	F18 ext2.Code
	F19 ext2.Code
	F20 ext2.Code
	F21 ext2.Code
	F22 ext2.Code
	F23 ext2.Code
	F24 ext2.Code
	F25 ext2.Code
	F26 ext2.Code
	F27 ext2.Code
	F28 ext2.Code
	F29 ext2.Code
	F30 ext2.Code
	F31 ext2.Code
	F32 ext2.Code
	F33 ext2.Code
	F34 ext2.Code
	F35 ext2.Code
	F36 ext2.Code
	F37 ext2.Code
	F38 ext2.Code
	F39 ext2.Code
	F40 ext2.Code
	F41 ext2.Code
	F42 ext2.Code
	F43 ext2.Code
	F44 ext2.Code
	F45 ext2.Code
}

// Dst43: every field has type *error.
type Dst43 struct {
	F00 *error
	F01 *error
	F02 *error
	F03 *error
	F04 *error
	F05 *error
	F06 *error
	F07 *error
	F08 *error
	F09 *error
	F10 *error
	F11 *error
	F12 *error
	F13 *error
	F14 *error
	F15 *error
	F16 *error
	F17 *error
	F18 *error
	F19 *error
	F20 *error
	F21 *error
	F22 *error
	F23 *error
	F24 *error
	F25 *error
	F26 *error
	F27 *error
	F28 *error
	F29 *error
	F30 *error
	F31 *error
	F32 *error
	F33 *error
	F34 *error
	F35 *error
	F36 *error
	F37 *error
	F38 *error
	F39 *error
	F40 *error
	F41 *error
	F42 *error
	F43 *error
	F44 *error
	F45 *error
}

// Dst44: every field has type unsafe.Pointer.
type Dst44 struct {
	F00 unsafe.Pointer
	F01 unsafe.Pointer
	F02 unsafe.Pointer
	F03 unsafe.Pointer
	F04 unsafe.Pointer
	F05 unsafe.Pointer
	F06 unsafe.Pointer
	F07 unsafe.Pointer
	F08 unsafe.Pointer
	F09 unsafe.Pointer
	F10 unsafe.Pointer
	F11 unsafe.Pointer
	F12 unsafe.Pointer
	F13 unsafe.Pointer
	F14 unsafe.Pointer
	F15 unsafe.Pointer
	F16 unsafe.Pointer
	F17 unsafe.Pointer
	F18 unsafe.Pointer
	F19 unsafe.Pointer
	F20 unsafe.Pointer
	F21 unsafe.Pointer
	F22 unsafe.Pointer
	F23 unsafe.Pointer
	F24 unsafe.Pointer
	F25 unsafe.Pointer
	F26 unsafe.Pointer
	F27 unsafe.Pointer
	F28 unsafe.Pointer
	F29 unsafe.Pointer
	F30 unsafe.Pointer
	F31 unsafe.Pointer
	F32 unsafe.Pointer
	F33 unsafe.Pointer
	F34 unsafe.Pointer
	F35 unsafe.Pointer
	F36 unsafe.Pointer
	F37 unsafe.Pointer
	F38 unsafe.Pointer
	F39 unsafe.Pointer
	F40 unsafe.Pointer
	F41 unsafe.Pointer
	F42 unsafe.Pointer
	F43 unsafe.Pointer
	F44 unsafe.Pointer
	F45 unsafe.Pointer
}

// Dst45: every field has type *fmtStringer.
type Dst45 struct {
	F00 *fmtStringer
	F01 *fmtStringer
	F02 *fmtStringer
	F03 *fmtStringer
	F04 *fmtStringer
	F05 *fmtStringer
	F06 *fmtStringer
	F07 *fmtStringer
	F08 *fmtStringer
	F09 *fmtStringer
	F10 *fmtStringer
	F11 *fmtStringer
	F12 *fmtStringer
	F13 *fmtStringer
	F14 *fmtStringer
	F15 *fmtStringer
	F16 *fmtStringer
	F17 *fmtStringer
	F18 *fmtStringer
	F19 *fmtStringer
	F20 *fmtStringer
	F21 *fmtStringer
	F22 *fmtStringer
	F23 *fmtStringer
	F24 *fmtStringer
	F25 *fmtStringer
	F26 *fmtStringer
	F27 *fmtStringer
	F28 *fmtStringer
	F29 *fmtStringer
	F30 *fmtStringer
	F31 *fmtStringer
	F32 *fmtStringer
	F33 *fmtStringer
	F34 *fmtStringer
	F35 *fmtStringer
	F36 *fmtStringer
	F37 *fmtStringer
	F38 *fmtStringer
	F39 *fmtStringer
	F40 *fmtStringer
	F41 *fmtStringer
	F42 *fmtStringer
	F43 *fmtStringer
	F44 *fmtStringer
	F45 *fmtStringer
}
