//go:build convergen

package types

import "verifsk/ext"

var _ ext.ID

type Convergen interface {
	To00(*Src) *Dst00
	To01(*Src) *Dst01
	To02(*Src) *Dst02
	To03(*Src) *Dst03
	To04(*Src) *Dst04
	To05(*Src) *Dst05
	To06(*Src) *Dst06
	To07(*Src) *Dst07
	To08(*Src) *Dst08
	To09(*Src) *Dst09
	To10(*Src) *Dst10
	To11(*Src) *Dst11
	To12(*Src) *Dst12
	To13(*Src) *Dst13
	To14(*Src) *Dst14
	To15(*Src) *Dst15
	To16(*Src) *Dst16
	To17(*Src) *Dst17
	To18(*Src) *Dst18
	To19(*Src) *Dst19
	To20(*Src) *Dst20
	To21(*Src) *Dst21
	To22(*Src) *Dst22
	To23(*Src) *Dst23
	To24(*Src) *Dst24
	To25(*Src) *Dst25
	To26(*Src) *Dst26
	To27(*Src) *Dst27
	To28(*Src) *Dst28
	To29(*Src) *Dst29
	To30(*Src) *Dst30
	To31(*Src) *Dst31
	To32(*Src) *Dst32
	To33(*Src) *Dst33
	To34(*Src) *Dst34
	To35(*Src) *Dst35
	To36(*Src) *Dst36
	To37(*Src) *Dst37
	To38(*Src) *Dst38
	To39(*Src) *Dst39
	To40(*Src) *Dst40
	To41(*Src) *Dst41
	To42(*Src) *Dst42
	To43(*Src) *Dst43
	To44(*Src) *Dst44
	To45(*Src) *Dst45
}
