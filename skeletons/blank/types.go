package blank

type A struct{ Name string }
type B struct{ Name string }
