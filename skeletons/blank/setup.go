//go:build convergen

package blank

import (
	_ "verifsk/side/cryp/v2"
	_ "verifsk/side/lib"

	"verifsk/lib/v2"
)

var _ lib.Kind

type Convergen interface {
	// :conv lib.Norm Name
	// :@S1@
	AtoB(*A) *B
	// the converter's package is imported for the notation only (README convention), and its
	// directory is not called like the package
	// :conv cryp.Up Name
	BtoA(*B) *A
}
