package dup

type A struct{ X int }
type B struct{ X int }
