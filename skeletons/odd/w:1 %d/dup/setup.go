//go:build convergen

package dup

// The setup file has a type error INSIDE the converter interface: go/types leaves the offending
// method out, so generating from what it reports would drop a method while claiming success.
type Convergen interface {
	AtoB(*A) *B
	// :@D1@
	AtoB(*A) *B
	BtoA(*B) *A
}

// Unrelated type errors elsewhere in the file do not concern the converter interface.
var unused = undefinedName
