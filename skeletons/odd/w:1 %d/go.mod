module oddsk

go 1.19
