//go:build convergen

package shapes

import "verifsk/ext"

var _ ext.ID

type Convergen interface {
	// Conv is the method under test.
	// :@N1@
	// :@N2@
	Conv(src *Src, extra string, n int) (*Dst, error)
}
