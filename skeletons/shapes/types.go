package shapes

import "verifsk/ext"

type Inner struct {
	A int
	B string
}

type InnerX struct {
	A int
	B string
	C bool
}

type Deep struct {
	In Inner
	N  int
}

type DeepX struct {
	In InnerX
	N  int
	M  int
}

// Holder is used with the SAME type on both sides and has a struct-typed member.
type Holder struct {
	In Inner
	N  int
}

type Emb struct {
	E1 int
	E2 string
}

type Src struct {
	ID   int
	Name string
	In   Inner
	Deep Deep
	Emb
	Anon struct {
		P int
		Q string
	}
	Anon2 struct{ P int }
	PtrIn *Inner
	Items []Inner
	Empty struct{}
	Imp   ext.Owner
	Extra string
	note  string
	Same  Holder
	Meta  struct {
		Tag string
		rev int
	}
	Box  ext.Box
	STag Tag
	CT   struct {
		Name string
		Age  int
	}
	PSame *Holder
	W     Wire
	_     int
	Stamp struct{ Sec int64 }
	Lab   string
	Nums  []int
	Exp   ext.Exp
}

func (s *Src) Prof() ext.Profile { return ext.Profile{} }

// Same2 hands out a Holder by value: the same type as the destination field of that name.
func (s *Src) Same2() Holder { return s.Same }

func (s *Src) Title() string         { return s.Name }
func (s *Src) Owner() *ext.Owner     { return &s.Imp }
func (s *Src) Fail() (string, error) { return "", nil }

// Scaled takes a parameter: it is no getter, `Scaled()` in a notation names nothing callable.
func (s *Src) Scaled(n int) string { return s.Name }

type Dst struct {
	ID   int
	Name string
	In   InnerX
	Deep DeepX
	Emb
	Anon struct {
		P int
		Q string
	}
	Anon2 struct{ P int64 }
	PtrIn *InnerX
	Items []InnerX
	Empty struct{}
	Imp   ext.Pet
	Title string
	Miss  int
	Same  Holder
	Meta  struct {
		Tag   string
		rev   int
		owner string
	}
	Box   ext.Box2
	Same2 Holder
	CT    ext.CaseTwin
	PSame *Holder
	Label Tag
	W     WireX
	_     int
	Stamp ext.Stamp
	Lab   ext.Label
	Total int
	Exp   ext.Exp2
	Prof  struct {
		Inner ext.Label
		Score int
	}
}

// Wire / WireX are local types defined over an imported struct: its unexported member stays
// out of reach.
type Wire ext.Pet

type WireX ext.Pet

// Label is a local type with the bare name of an imported one.
type Label int

// Sum is variadic.
func Sum(xs ...int) int { return len(xs) }

// Tag is a named string (a typecast target).
type Tag string

// PtrUp takes its argument by pointer.
func PtrUp(s *string) string { return *s }

func Up(s string) string             { return s }
func UpErr(s string) (string, error) { return s, nil }
func Itoa(i int) string              { return "" }
