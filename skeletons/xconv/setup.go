//go:build convergen

package xconv

// AsMethods sorts before Convergen: its ToB is generated as a METHOD of A, which cannot serve as
// a converter; the plain function ToB generated from Helpers can, and is the one :conv names.
// :convergen
type AsMethods interface {
	// :recv a
	ToB(A) B
}

type Convergen interface {
	// Outer converts its nested struct with a function generated from ANOTHER interface of
	// this file (which sorts after this one) and with one generated from this interface.
	// :conv ToB In
	Outer(*SrcO) *DstO
	// :conv Local In
	Outer2(*SrcO) *DstO
	// Local is generated from the same interface.
	Local(A) B
	// :@S2@
	Outer3(*SrcO) *DstO
}

// :convergen
type Helpers interface {
	// ToB is generated in the same run.
	ToB(A) B
	// :@S1@
	ToBErr(A) (B, error)
	// WithN takes an additional argument: it cannot be called as a converter.
	WithN(a A, n int) B
}
