package xconv

type A struct{ X int }
type B struct{ X int }

type SrcO struct {
	In   A
	Name string
}

type DstO struct {
	In   B
	Name string
}
