//go:build convergen

package nointf

// Sibling is marked but lives in another file of the package (whose name even ends like the
// input file's name).
// :convergen
type Sibling interface {
	Sib(*Src) *Dst
}

// Convergen is named like a converter interface but is not declared in the input file.
type Convergen interface {
	Conv2(*Src) *Dst
}
