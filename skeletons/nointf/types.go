package nointf

type Src struct{ V int }
type Dst struct{ V int }
