//go:build convergen

package nointf

// :@S1@
type Plain interface {
	Conv(*Src) *Dst
}

type Holder struct{ X int }
