//go:build convergen

// Package sel has a package comment whose lines look like a doc comment with notations; it is
// nobody's doc comment but the package's.
// :skip ID
// :typecast
package sel

// An ordinary declaration before the interfaces.
var Before = 1

// :@S1@
type Gamma interface {
	Conv(*SrcG) *Dst
	Mixin
}

// Mixin is no converter interface itself: the notations of ITS doc comment are nobody's defaults,
// but its methods are Gamma's, with the doc comments (and notations) they are declared with.
// :typecast
// :skip V
type Mixin interface {
	// MixA is converted through the interface that embeds Mixin.
	// :skip W
	MixA(*SrcA) *Dst
	MixB(*SrcA) *Dst
}

// :@S2@
type Alpha interface {
	// Conv of Alpha.
	Conv(*SrcA) *Dst
	Other(*SrcA) *Dst
}

// :@S3@
type Convergen interface {
	Main(*SrcC) *Dst
}

// :@S4@
type Beta interface {
	Shared
	Bee(*SrcB) *Dst
}

// :@S5@
type Delta = interface {
	Dee(*SrcA) *Dst
}

// convergen is NOT the reserved name (which is spelled Convergen) and carries no marker.
type convergen interface {
	merge(*SrcA) *Dst
}

// AVariable is a variable of an interface type that carries a marker: no interface declaration.
// :convergen
var AVariable interface {
	FromVar(*SrcA) *Dst
}

// NotAnInterface carries a marker but is no interface.
// :convergen
type NotAnInterface struct{ X int }
