//go:build convergen

package sel

// An ordinary declaration before the interfaces.
var Before = 1

// :@S1@
type Gamma interface {
	Conv(*SrcG) *Dst
}

// :@S2@
type Alpha interface {
	// Conv of Alpha.
	Conv(*SrcA) *Dst
	Other(*SrcA) *Dst
}

// :@S3@
type Convergen interface {
	Main(*SrcC) *Dst
}

// :@S4@
type Beta interface {
	Shared
	Bee(*SrcB) *Dst
}

// convergen is NOT the reserved name (which is spelled Convergen) and carries no marker.
type convergen interface {
	merge(*SrcA) *Dst
}

// NotAnInterface carries a marker but is no interface.
// :convergen
type NotAnInterface struct{ X int }
