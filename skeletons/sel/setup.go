//go:build convergen

// Package sel has a package comment whose lines look like a doc comment with notations; it is
// nobody's doc comment but the package's.
// :skip ID
// :typecast
package sel

// An ordinary declaration before the interfaces.
var Before = 1

// :@S1@
type Gamma interface {
	Conv(*SrcG) *Dst
}

// :@S2@
type Alpha interface {
	// Conv of Alpha.
	Conv(*SrcA) *Dst
	Other(*SrcA) *Dst
}

// :@S3@
type Convergen interface {
	Main(*SrcC) *Dst
}

// :@S4@
type Beta interface {
	Shared
	Bee(*SrcB) *Dst
}

// convergen is NOT the reserved name (which is spelled Convergen) and carries no marker.
type convergen interface {
	merge(*SrcA) *Dst
}

// AVariable is a variable of an interface type that carries a marker: no interface declaration.
// :convergen
var AVariable interface {
	FromVar(*SrcA) *Dst
}

// NotAnInterface carries a marker but is no interface.
// :convergen
type NotAnInterface struct{ X int }
