//go:build convergen

package sel

// Sibling is marked but lives in another file of the package.
// :convergen
type Sibling interface {
	Sib(*SrcS) *Dst
}
