//go:build convergen

package sel

// Sibling is marked but lives in another file of the package.
// :convergen
type Sibling interface {
	Sib(*SrcS) *Dst
}

// Shared is an ordinary interface of another file; a converter interface of the input file that
// embeds it has its methods too.
type Shared interface {
	FromSibling(*SrcB) *Dst
}
