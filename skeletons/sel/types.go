package sel

type SrcA struct{ V int }
type SrcB struct{ V int }
type SrcC struct{ V int }
type SrcG struct{ V int }
type SrcS struct{ V int }
type Dst struct{ V int }
