// Package lib lives in a directory whose name (v2) is not the package name.
package lib

type Kind int

// Norm is a converter.
func Norm(s string) string { return s }

// Pre is a hook for the skeleton bad.
func Pre(dst interface{}, src interface{}) {}
