//go:build convergen

// Package whole carries a package comment that must survive.
package whole

import (
	"fmt"
	"strings"
)

//go:generate go run github.com/reedom/convergen

// Before has its own comment before the interfaces.
var Before = strings.ToUpper("x") // trailing comment of Before

// Mixed keeps its prose although a directive stands in the same comment.
//
//go:generate echo mixed
var Mixed = 2

// Repo is an ordinary interface, not a converter.
// :nodoc:
// :deprecated use Store instead
type Repo interface {
	// Get fetches; 100% ordinary.
	// :map is no notation here
	Get(id int) *Src
}

// :@I1@
type Convergen interface {
	// :@M1@
	First(*Src) *Dst
	Second(*Src) *Dst
}

// :@E1@
type Empty interface{}

// Middle sits between the converter interfaces.
func Middle() string {
	// a comment inside a function body
	return fmt.Sprint(Before)
}

// :@I2@
type Other interface {
	// :@M3@
	Third(*Dst) *Src
}

/* Trailing has a block comment. */
type Trailing struct {
	X int // field comment
}
