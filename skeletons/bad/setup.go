//go:build convergen

package bad

import "verifsk/ext"

var _ ext.ID

// :@I1@
type Convergen interface {
	// Conv is the method under test.
	// :@N1@
	// :@N2@
	Conv(*Src) (*Dst, error)
	// Other must never be dropped silently.
	// :@M1@
	Other(src *Src) (dst *Dst)
}
