//go:build convergen

package bad

import (
	"verifsk/ext"
	"verifsk/lib/v2"
)

var _ ext.ID
var _ lib.Kind

// :@I1@
type Convergen interface {
	// Conv is the method under test.
	// :@N1@
	// :@N2@
	Conv(*Src) (*Dst, error)
	// Other must never be dropped silently.
	// :@M1@
	Other(src *Src) (dst *Dst)
}

// Healthy is a second, well-formed converter interface: a broken sibling interface must fail the
// run, not be dropped while this one is generated.
// :convergen
type Healthy interface {
	Fine(*Src) *Dst
	// WithArgs passes two additional arguments on to its hooks.
	// :@H1@
	WithArgs(src *Src, n int, v interface{}) *Dst
	// WithOpt passes a pointer on to its hooks.
	// :@H3@
	WithOpt(src *Src, o *ext.Opts) *Dst
	// Blank has an additional argument nobody named.
	// :@H2@
	Blank(src *Src, _ int) *Dst
	// WithCause has an additional argument of the predeclared type error (a type without package).
	WithCause(src *Src, cause error) *Dst
}
