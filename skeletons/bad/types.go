package bad

import (
	"verifsk/ext"
	"verifsk/lib/v2"
)

type Src struct {
	ID   int
	Name string
	Pet  ext.Pet
	Err  error
	K    int
}

type Dst struct {
	ID    int
	Name  string
	Pet   ext.Pet
	Err   error
	Extra error
	K     lib.Kind
}

var NotFunc = 1

type AType struct{}

func Good(s string) string                   { return s }
func GoodErr(s string) (string, error)       { return s, nil }
func TwoArgs(a, b string) string             { return a + b }
func NoArg() string                          { return "" }
func NoRet(s string)                         {}
func ThreeRet(s string) (string, int, error) { return s, 0, nil }
func TwoRetNoErr(s string) (string, int)     { return s, 0 }
func Variadic(s ...string) string            { return "" }

// Any takes whatever it is given: `Any(src.NameErr())` compiles and swallows the error.
func Any(xs ...interface{}) string { return "" }
func Generic[T any](t T) T         { return t }

// MyErr implements error; a function whose last result is *MyErr does NOT return the error type:
// wired as "x, err = f()" a nil *MyErr becomes a non-nil error (typed nil), so such functions are
// no error-returning converters / hooks (README: the error type).
type MyErr struct{}

func (*MyErr) Error() string { return "my" }

// ErrLike is a named interface type embedding error - still not the error type.
type ErrLike interface{ error }

func TypedErr(s string) (string, *MyErr)         { return s, nil }
func ErrLikeConv(s string) (string, ErrLike)     { return s, nil }
func HookTypedErr(dst *Dst, src *Src) *MyErr     { return nil }
func HookGood(dst *Dst, src *Src) error          { return nil }
func HookNoErr(dst *Dst, src *Src)               {}
func HookZeroArg()                               {}
func HookOneArg(dst *Dst)                        {}
func HookRetInt(dst *Dst, src *Src) int          { return 0 }
func HookTwoRet(dst *Dst, src *Src) (int, error) { return 0, nil }
func HookWrongDst(dst *Src, src *Src)            {}
func HookWrongSrc(dst *Dst, src *Dst)            {}
func HookExtra(dst *Dst, src *Src, n int)        {}
func HookVal(dst Dst, src Src)                   {}
func HookVariadic(dst *Dst, src *Src, xs ...int) {}

func (s *Src) NameErr() (string, error) { return s.Name, nil }

// OnHand is a comma-ok accessor, not an error-returning getter.
func (s *Src) OnHand() (string, bool) { return s.Name, true }

// Hooks for methods with additional arguments (n int, v interface{}).
func HookExact(dst *Dst, src *Src, n int, v interface{})        {}
func HookWide(dst *Dst, src *Src, n interface{}, v interface{}) {}
func HookNarrow(dst *Dst, src *Src, n int, v int)               {}
func HookVarTail(dst *Dst, src *Src, n int, vs ...interface{})  {}
func HookN(dst *Dst, src *Src, n int)                           {}

func HookOptPtr(dst *Dst, src *Src, o *ext.Opts) {}
func HookOptVal(dst *Dst, src *Src, o ext.Opts)  {}
