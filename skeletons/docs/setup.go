//go:build convergen

// Package docs carries a package comment that must survive.
// :skip B
package docs

// A declaration with its own comment before the interfaces.
var Before = 1

// :@I1@
type Convergen interface {
	// :@M1@
	First(*Src) *Dst
	Second(*Src) *Dst
	// :@M3@
	Third(*Src) *Dst
}

// Trailing has a comment as well.
type Trailing struct{ X int }
