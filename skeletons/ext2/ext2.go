// Package ext2 is imported by package ext only: a setup file reaches its types through ext's
// structs without importing it.
package ext2

type T struct{ V int }

type Code int
