module verifsk

go 1.19
