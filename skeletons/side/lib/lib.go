// Package lib (another one): imported for its side effects only.
package lib
