// Package cryp lives in a directory called v2 and is imported by setup files for notations only.
package cryp

// Up is a converter.
func Up(s string) string { return s }
