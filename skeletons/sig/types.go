package sig

import "verifsk/ext"

var _ ext.ID

type Src struct {
	ID   int
	Name string
}

type Dst struct {
	ID   int
	Name string
}
