//go:build convergen

package sig

import "verifsk/ext"

type Convergen interface {
	M000(*Src) *Dst
	M001(*Src) *ext.Pet
	M002(*ext.Pet) *Dst
	M003(in *Src) (out *Dst)
	M004(in *Src) (out *ext.Pet)
	M005(in *ext.Pet) (out *Dst)
	M006(*Src, int) *Dst
	M007(*Src, int) *ext.Pet
	M008(*ext.Pet, int) *Dst
	M009(in *Src, x0 int) (out *Dst)
	M010(in *Src, x0 int) (out *ext.Pet)
	M011(in *ext.Pet, x0 int) (out *Dst)
	M012(*Src, int, *ext.Opts) *Dst
	M013(in *Src, x0 int, x1 *ext.Opts) (out *Dst)
	M014(*Src, int, *ext.Opts, string) *Dst
	M015(*Src) (*Dst, error)
	M016(*Src) (*ext.Pet, error)
	M017(*ext.Pet) (*Dst, error)
	M018(in *Src) (out *Dst, err error)
	M019(in *Src) (out *ext.Pet, err error)
	M020(in *ext.Pet) (out *Dst, err error)
	M021(*Src, int) (*Dst, error)
	M022(*Src, int) (*ext.Pet, error)
	M023(*ext.Pet, int) (*Dst, error)
	M024(in *Src, x0 int) (out *Dst, err error)
	M025(in *Src, x0 int) (out *ext.Pet, err error)
	M026(in *ext.Pet, x0 int) (out *Dst, err error)
	M027(*Src, int, *ext.Opts) (*Dst, error)
	M028(in *Src, x0 int, x1 *ext.Opts) (out *Dst, err error)
	M029(*Src, int, *ext.Opts, string) (*Dst, error)
	M030(*Src) Dst
	M031(*Src) ext.Pet
	M032(*ext.Pet) Dst
	M033(in *Src) (out Dst)
	M034(in *Src) (out ext.Pet)
	M035(in *ext.Pet) (out Dst)
	M036(*Src, int) Dst
	M037(*Src, int) ext.Pet
	M038(*ext.Pet, int) Dst
	M039(in *Src, x0 int) (out Dst)
	M040(in *Src, x0 int) (out ext.Pet)
	M041(in *ext.Pet, x0 int) (out Dst)
	M042(*Src, int, *ext.Opts) Dst
	M043(in *Src, x0 int, x1 *ext.Opts) (out Dst)
	M044(*Src, int, *ext.Opts, string) Dst
	M045(*Src) (Dst, error)
	M046(*Src) (ext.Pet, error)
	M047(*ext.Pet) (Dst, error)
	M048(in *Src) (out Dst, err error)
	M049(in *Src) (out ext.Pet, err error)
	M050(in *ext.Pet) (out Dst, err error)
	M051(*Src, int) (Dst, error)
	M052(*Src, int) (ext.Pet, error)
	M053(*ext.Pet, int) (Dst, error)
	M054(in *Src, x0 int) (out Dst, err error)
	M055(in *Src, x0 int) (out ext.Pet, err error)
	M056(in *ext.Pet, x0 int) (out Dst, err error)
	M057(*Src, int, *ext.Opts) (Dst, error)
	M058(in *Src, x0 int, x1 *ext.Opts) (out Dst, err error)
	M059(*Src, int, *ext.Opts, string) (Dst, error)
	M060(Src) *Dst
	M061(Src) *ext.Pet
	M062(ext.Pet) *Dst
	M063(in Src) (out *Dst)
	M064(in Src) (out *ext.Pet)
	M065(in ext.Pet) (out *Dst)
	M066(Src, int) *Dst
	M067(Src, int) *ext.Pet
	M068(ext.Pet, int) *Dst
	M069(in Src, x0 int) (out *Dst)
	M070(in Src, x0 int) (out *ext.Pet)
	M071(in ext.Pet, x0 int) (out *Dst)
	M072(Src, int, *ext.Opts) *Dst
	M073(in Src, x0 int, x1 *ext.Opts) (out *Dst)
	M074(Src, int, *ext.Opts, string) *Dst
	M075(Src) (*Dst, error)
	M076(Src) (*ext.Pet, error)
	M077(ext.Pet) (*Dst, error)
	M078(in Src) (out *Dst, err error)
	M079(in Src) (out *ext.Pet, err error)
	M080(in ext.Pet) (out *Dst, err error)
	M081(Src, int) (*Dst, error)
	M082(Src, int) (*ext.Pet, error)
	M083(ext.Pet, int) (*Dst, error)
	M084(in Src, x0 int) (out *Dst, err error)
	M085(in Src, x0 int) (out *ext.Pet, err error)
	M086(in ext.Pet, x0 int) (out *Dst, err error)
	M087(Src, int, *ext.Opts) (*Dst, error)
	M088(in Src, x0 int, x1 *ext.Opts) (out *Dst, err error)
	M089(Src, int, *ext.Opts, string) (*Dst, error)
	M090(Src) Dst
	M091(Src) ext.Pet
	M092(ext.Pet) Dst
	M093(in Src) (out Dst)
	M094(in Src) (out ext.Pet)
	M095(in ext.Pet) (out Dst)
	M096(Src, int) Dst
	M097(Src, int) ext.Pet
	M098(ext.Pet, int) Dst
	M099(in Src, x0 int) (out Dst)
	M100(in Src, x0 int) (out ext.Pet)
	M101(in ext.Pet, x0 int) (out Dst)
	M102(Src, int, *ext.Opts) Dst
	M103(in Src, x0 int, x1 *ext.Opts) (out Dst)
	M104(Src, int, *ext.Opts, string) Dst
	M105(Src) (Dst, error)
	M106(Src) (ext.Pet, error)
	M107(ext.Pet) (Dst, error)
	M108(in Src) (out Dst, err error)
	M109(in Src) (out ext.Pet, err error)
	M110(in ext.Pet) (out Dst, err error)
	M111(Src, int) (Dst, error)
	M112(Src, int) (ext.Pet, error)
	M113(ext.Pet, int) (Dst, error)
	M114(in Src, x0 int) (out Dst, err error)
	M115(in Src, x0 int) (out ext.Pet, err error)
	M116(in ext.Pet, x0 int) (out Dst, err error)
	M117(Src, int, *ext.Opts) (Dst, error)
	M118(in Src, x0 int, x1 *ext.Opts) (out Dst, err error)
	M119(Src, int, *ext.Opts, string) (Dst, error)
}
