package sym

// Symbolic executor over go/ssa: path forking by re-execution with a decision prefix.

import (
	"fmt"
	"go/token"
	"go/types"
	"os"
	"reflect"
	"regexp"
	"runtime"
	"slices"
	"sort"
	"strings"

	"golang.org/x/tools/go/ssa"
)

// ---------------------------------------------------------------- path-terminating panics

type unsupportedErr struct{ msg string }

func unsupported(msg string) unsupportedErr { return unsupportedErr{msg} }

// goPanic is a Go run-time panic of the target program (first-class outcome).
type goPanic struct {
	kind string
	msg  string
	pos  token.Pos
}

// passThrough is returned by a conditional stub that is not active in this run.
type passThrough struct{}

type abortPath struct{ reason string } // infeasible / assumption false
type exitPath struct{ code value }     // os.Exit
type unwindExceeded struct{ where string }

// ---------------------------------------------------------------- engine (shared, read-only)

type Engine struct {
	Prog           *ssa.Program
	Fset           *token.FileSet
	Interpreted    func(*ssa.Package) bool
	Sizes          types.Sizes
	Stubs          map[string]StubFn
	Natives        map[string]interface{} // package-level native funcs / globals (reflect bridge)
	Whitelist      map[string]bool        // library functions interpreted from their own SSA
	WhitelistPkgs  map[string]bool        // library packages whose unstubbed functions are interpreted
	Trace          bool
	MaxSteps       int
	MaxForks       int
	MaxBlockVisits int
	SolverKind     SolverKind
	TimeoutMs      int
	Prelude        string
	FuncsEntered   map[string]bool
	SkeletonRoot   string
	CrossCheck     int                        // thorough tier: every CrossCheck-th symbolic obligation is re-decided by z3 4.8.12 and cvc5 (0 = off)
	SamplePath     func(decisions []int) bool // sample completed paths for native validation replays
	SubmatchHook   func(r *Run, re *regexp.Regexp, s *Term) (value, bool)
}

type StubFn func(r *Run, fr *frame, fn *ssa.Function, args []value) value

// ---------------------------------------------------------------- per-path state

type Diag struct {
	Kind   string // warn | error | print
	Format string
	Args   []string
}

type Effect struct {
	Op   string
	Args []value
}

type Obs struct {
	Label string
	Val   value
}

type AssertRec struct {
	Label  string
	Status string // discharged | trivially-true | violated | inconclusive
}

type Violation struct {
	Harness   string
	Label     string
	Model     map[string]interface{}
	Decisions []int
	Detail    string
	PC        string
	Obs       []string
	Permuted  bool // the path iterated a map in a non-insertion order (replay may need repetition)
}

type Run struct {
	Sec      []*Solver // secondary solvers (cross-check)
	E        *Engine
	S        *Solver
	Harness  string
	globals  map[*ssa.Global]*value
	pc       []*Term
	prefix   []int
	taken    []int
	pending  [][]int
	inputs   []*Term
	inputSet map[*Term]bool
	fresh    map[string]int
	steps    int

	Effects                           []Effect
	Stderr                            []value // everything the run wrote to standard error, in order
	Diags                             []Diag
	ObsList                           []Obs
	Asserts                           []AssertRec
	Reached                           map[string]bool
	Viol                              []Violation
	Inconclusive                      []string
	funcs                             map[string]bool
	stubsHit                          map[string]bool
	initDone                          map[*ssa.Package]bool
	ExploreMapOrder                   bool
	Env                               map[string]value // harness-configured environment (flags etc.)
	depth                             int
	unknownFeas                       int
	ccCount, CrossAgree, CrossUnknown int
	permuted                          bool
	pcVars                            map[*Term]bool
	pcLits                            map[*Term]bool
}

type frame struct {
	r                *Run
	caller           *frame
	fn               *ssa.Function
	block, prevBlock *ssa.BasicBlock
	env              map[ssa.Value]value
	locals           []value
	result           value
	phitemps         []value
	visits           map[*ssa.BasicBlock]int
	callpos          token.Pos
	defers           []deferred
}

type deferred struct {
	fn   value
	args []value
	pos  token.Pos
}

func (fr *frame) get(key ssa.Value) value {
	switch key := key.(type) {
	case nil:
		return nil
	case *ssa.Function, *ssa.Builtin:
		return key
	case *ssa.Const:
		return constValue(key)
	case *ssa.Global:
		return fr.r.global(key)
	}
	if r, ok := fr.env[key]; ok {
		return r
	}
	where := ""
	if in, ok := key.(ssa.Instruction); ok && in.Parent() != nil {
		where = fmt.Sprintf(" defined in %s block %d; frame of %s block %d", in.Parent(), in.Block().Index, fr.fn, fr.block.Index)
		if fr.prevBlock != nil {
			where += fmt.Sprintf(" (from block %d)", fr.prevBlock.Index)
		}
	}
	panic(fmt.Sprintf("get: no value for %T: %v%s", key, key.Name(), where))
}

func (r *Run) global(g *ssa.Global) value {
	if p, ok := r.globals[g]; ok {
		return p
	}
	if g.Pkg != nil && !r.E.Interpreted(g.Pkg) {
		// native global (e.g. go/types.Universe)
		name := g.Pkg.Pkg.Path() + "." + g.Name()
		if nv, ok := r.E.Natives[name]; ok {
			return nativeV{reflectValueOf(nv)} // pointer to the native global
		}
		var cell value
		switch name {
		case "os.Stderr":
			cell = r.streamToken("stderr")
		case "os.Stdout":
			cell = r.streamToken("stdout")
		case "io.Discard":
			cell = iface{v: r.newToken("discard", nil)}
		case "flag.Usage", "flag.CommandLine", "os.Args":
			cell = zero(mustDeref(g.Type()))
		default:
			panic(unsupported("global of non-interpreted package: " + name))
		}
		r.stubsHit["foreign-global:"+name] = true
		r.globals[g] = &cell
		return &cell
	}
	r.ensureInit(g.Pkg)
	if p, ok := r.globals[g]; ok {
		return p
	}
	cell := zero(mustDeref(g.Type()))
	r.globals[g] = &cell
	return &cell
}

// streamToken models os.Stdout / os.Stderr: Write and WriteString record a print effect; standard
// output may reject the write when the harness says so (SetEnv("stdout.faulty", true)).
func (r *Run) streamToken(class string) *absObj {
	tok := r.newToken(class, nil)
	write := func(r *Run, self *absObj, args []value) value {
		var out value
		switch x := args[0].(type) {
		case string, *Term, runesV:
			out = x
		default:
			out = bytesToStr(args[0])
		}
		r.Effects = append(r.Effects, Effect{Op: "print:" + class, Args: []value{out}})
		if class == "stderr" {
			r.Stderr = append(r.Stderr, out)
		}
		if class == "stdout" && r.Env["stdout.faulty"] == true {
			if err := r.nondetErr("stdout.err"); !err.(iface).isNil() {
				return tuple{0, err}
			}
		}
		return tuple{lenV(out), iface{}}
	}
	tok.meth["Write"] = write
	tok.meth["WriteString"] = write
	return tok
}

// ensureInit runs the package initialiser of an interpreted package once per run.
func (r *Run) ensureInit(pkg *ssa.Package) {
	if pkg == nil || r.initDone[pkg] || !r.E.Interpreted(pkg) {
		return
	}
	r.initDone[pkg] = true
	for _, m := range pkg.Members {
		if g, ok := m.(*ssa.Global); ok {
			if _, ok := r.globals[g]; !ok {
				cell := zero(mustDeref(g.Type()))
				r.globals[g] = &cell
			}
		}
	}
	if init := pkg.Func("init"); init != nil {
		r.call(nil, token.NoPos, init, nil)
	}
}

func (r *Run) pos(p token.Pos) string {
	if !p.IsValid() {
		return "?"
	}
	ps := r.E.Fset.Position(p)
	return fmt.Sprintf("%s:%d", ps.Filename, ps.Line)
}

func (fr *frame) where(instr poser) string {
	p := instr.Pos()
	f := fr
	for !p.IsValid() && f != nil {
		p = f.callpos
		f = f.caller
	}
	return fr.fn.String() + "@" + fr.r.pos(p)
}

// ---------------------------------------------------------------- decisions

// decide picks one of the alternatives whose conditions are conds (mutually exclusive, jointly
// exhaustive under the path condition). Follows the prefix; beyond it explores feasibility.
func (r *Run) decide(conds []*Term) int {
	idx := len(r.taken)
	if idx < len(r.prefix) {
		k := r.prefix[idx]
		if k >= len(conds) {
			panic(fmt.Sprintf("decision prefix out of range: %d of %d (non-deterministic re-execution?)", k, len(conds)))
		}
		r.taken = append(r.taken, k)
		r.assume(conds[k])
		return k
	}
	if len(r.taken) >= r.E.MaxForks {
		panic(unwindExceeded{"fork bound"})
	}
	var feasible []int
	for k, c := range conds {
		if c == TFalse {
			continue
		}
		if c == TTrue {
			feasible = append(feasible, k)
			continue
		}
		if r.pcLits[c] {
			feasible = append(feasible, k)
			continue
		}
		if r.pcLits[Not(c)] {
			continue
		}
		if r.simpleFresh(c) {
			feasible = append(feasible, k)
			continue
		}
		switch r.S.CheckWith(c) {
		case Sat:
			feasible = append(feasible, k)
		case Unknown:
			r.unknownFeas++
			feasible = append(feasible, k)
		}
	}
	if len(feasible) == 0 {
		panic(abortPath{"no feasible alternative"})
	}
	for _, k := range feasible[1:] {
		p := append(append([]int(nil), r.taken...), k)
		r.pending = append(r.pending, p)
	}
	k := feasible[0]
	r.taken = append(r.taken, k)
	r.assume(conds[k])
	return k
}

func (r *Run) assume(c *Term) {
	if c == TTrue {
		return
	}
	if c == TFalse {
		panic(abortPath{"assumed false"})
	}
	r.pc = append(r.pc, c)
	r.pcLits[c] = true
	var ds []*Term
	collectDecls(c, map[*Term]bool{}, &ds)
	for _, d := range ds {
		r.pcVars[d] = true
	}
	r.S.Assert(c)
}

// simpleFresh: c is a literal / var=const over a variable that the path condition does not
// mention yet, hence satisfiable together with it without asking the solver.
func (r *Run) simpleFresh(c *Term) bool {
	t := c
	if t.Op == "not" {
		t = t.Args[0]
	}
	switch {
	case t.Op == "var":
		return !r.pcVars[t]
	case t.Op == "=" && len(t.Args) == 2:
		a, b := t.Args[0], t.Args[1]
		if a.Op == "const" {
			a, b = b, a
		}
		if a.Op == "var" && b.Op == "const" && a.Sort != SStr {
			return !r.pcVars[a]
		}
	}
	return false
}

// branch forks on a boolean value.
func (r *Run) branch(c value) bool {
	switch c := c.(type) {
	case bool:
		return c
	case *Term:
		if c.IsConst() {
			return c.B
		}
		// already decided on this path: no fork, no decision recorded
		if r.pcLits[c] {
			return true
		}
		if r.pcLits[Not(c)] {
			return false
		}
		return r.decide([]*Term{c, Not(c)}) == 0
	}
	panic(fmt.Sprintf("branch on %T", c))
}

// choose forks k ways without constraints (schedule / menu choice).
func (r *Run) choose(k int) int {
	if k <= 1 {
		return 0
	}
	conds := make([]*Term, k)
	for i := range conds {
		conds[i] = TTrue
	}
	return r.decide(conds)
}

// concretizeInt forks over the values lo..hi of a symbolic int.
func (r *Run) concretizeInt(t *Term, lo, hi int64) int64 {
	if t.IsConst() {
		return t.I
	}
	var conds []*Term
	for v := lo; v <= hi; v++ {
		conds = append(conds, Eq(t, IntT(v)))
	}
	conds = append(conds, Or(Lt(t, IntT(lo)), Lt(IntT(hi), t)))
	k := r.decide(conds)
	if k == len(conds)-1 {
		return lo - 1 // out of range marker
	}
	return lo + int64(k)
}

func (r *Run) freshName(base string) string {
	n := r.fresh[base]
	r.fresh[base] = n + 1
	if n == 0 {
		return base
	}
	return fmt.Sprintf("%s#%d", base, n)
}

func (r *Run) newInput(name string, s Sort) *Term {
	v := Var(name, s)
	if !r.inputSet[v] {
		r.inputSet[v] = true
		r.inputs = append(r.inputs, v)
	}
	return v
}

// ---------------------------------------------------------------- obligations

func (r *Run) model(extra ...*Term) (Result, map[string]interface{}) {
	return r.S.CheckModel(r.inputs, extra...)
}

func (r *Run) assertCond(label string, c value, detail string) {
	switch cv := c.(type) {
	case bool:
		if cv {
			r.Asserts = append(r.Asserts, AssertRec{label, "trivially-true"})
			return
		}
		res, m := r.model()
		switch res {
		case Sat:
			r.Asserts = append(r.Asserts, AssertRec{label, "violated"})
			r.Viol = append(r.Viol, Violation{Harness: r.Harness, Label: label, Model: m, Decisions: append([]int(nil), r.taken...), Detail: detail, PC: r.pcString(), Obs: r.obsDump(), Permuted: r.permuted})
		case Unsat:
			panic(abortPath{"path infeasible at assertion"})
		default:
			r.Asserts = append(r.Asserts, AssertRec{label, "inconclusive"})
			r.Inconclusive = append(r.Inconclusive, "assert "+label+": solver unknown on path feasibility")
		}
	case *Term:
		res, m := r.model(Not(cv))
		switch res {
		case Sat:
			r.Asserts = append(r.Asserts, AssertRec{label, "violated"})
			r.Viol = append(r.Viol, Violation{Harness: r.Harness, Label: label, Model: m, Decisions: append([]int(nil), r.taken...), Detail: detail + " cond=" + cv.String(), PC: r.pcString(), Obs: r.obsDump(), Permuted: r.permuted})
			// continue under the assumption that the assertion holds (other violations stay reportable)
			if r.S.CheckWith(cv) != Sat {
				panic(abortPath{"assertion fails on the whole path"})
			}
			r.assume(cv)
		case Unsat:
			r.Asserts = append(r.Asserts, AssertRec{label, "discharged"})
			r.crossCheck(label, cv)
			r.assume(cv)
		default:
			r.Asserts = append(r.Asserts, AssertRec{label, "inconclusive"})
			r.Inconclusive = append(r.Inconclusive, "assert "+label+": solver unknown")
			r.assume(cv)
		}
	default:
		panic(fmt.Sprintf("assert on %T", c))
	}
}

// crossCheck re-decides a discharged obligation with the secondary solvers (sampled). A secondary
// answer "sat" contradicts the primary and makes the obligation inconclusive; unknown/timeouts of a
// secondary are only counted.
func (r *Run) crossCheck(label string, c *Term) {
	if r.E.CrossCheck <= 0 || len(r.Sec) == 0 {
		return
	}
	r.ccCount++
	h := uint64(1469598103934665603) ^ uint64(r.ccCount)
	for _, d := range r.taken {
		h = (h ^ uint64(d+1)) * 1099511628211
	}
	if h%uint64(r.E.CrossCheck) != 0 {
		return
	}
	for _, s := range r.Sec {
		s.Push()
		for _, t := range r.pc {
			s.Assert(t)
		}
		s.Assert(Not(c))
		res := s.Check()
		s.Pop()
		switch res {
		case Unsat:
			r.CrossAgree++
		case Sat:
			r.Inconclusive = append(r.Inconclusive, "assert "+label+": "+s.kind.Name+" answers sat where the primary solver answered unsat")
		default:
			r.CrossUnknown++
		}
	}
}

func (r *Run) obsDump() []string {
	var out []string
	for _, o := range r.ObsList {
		out = append(out, o.Label+" = "+toString(o.Val))
	}
	return out
}

func (r *Run) pcString() string {
	var sb strings.Builder
	for i, c := range r.pc {
		if i > 0 {
			sb.WriteString(" ")
		}
		sb.WriteString(c.String())
	}
	return sb.String()
}

// ---------------------------------------------------------------- instruction interpretation

type poser interface{ Pos() token.Pos }

type posInstr struct{ p token.Pos }

func (p posInstr) Pos() token.Pos { return p.p }

type continuation int

const (
	kNext continuation = iota
	kReturn
	kJump
)

func (fr *frame) panicAt(instr poser, kind, msg string) {
	p := instr.Pos()
	f := fr
	for !p.IsValid() && f != nil {
		p = f.callpos
		f = f.caller
	}
	panic(goPanic{kind: kind, msg: msg + " in " + fr.fn.String(), pos: p})
}

func visitInstr(fr *frame, instr ssa.Instruction) continuation {
	r := fr.r
	r.steps++
	if r.steps > r.E.MaxSteps {
		panic(unwindExceeded{"step budget at " + fr.where(instr)})
	}
	switch instr := instr.(type) {
	case *ssa.DebugRef:

	case *ssa.UnOp:
		fr.env[instr] = r.unop(fr, instr, fr.get(instr.X))

	case *ssa.BinOp:
		fr.env[instr] = r.binop(fr, instr, instr.Op, instr.X.Type(), fr.get(instr.X), fr.get(instr.Y))

	case *ssa.Call:
		fn, args := r.prepareCall(fr, instr, &instr.Call)
		fr.env[instr] = r.call(fr, instr.Pos(), fn, args)

	case *ssa.ChangeInterface:
		fr.env[instr] = fr.get(instr.X)

	case *ssa.ChangeType:
		fr.env[instr] = fr.get(instr.X)

	case *ssa.Convert:
		fr.env[instr] = r.conv(instr.Type(), instr.X.Type(), fr.get(instr.X))

	case *ssa.MakeInterface:
		x := fr.get(instr.X)
		fr.env[instr] = iface{t: instr.X.Type(), v: x}

	case *ssa.Extract:
		fr.env[instr] = fr.get(instr.Tuple).(tuple)[instr.Index]

	case *ssa.Slice:
		fr.env[instr] = r.sliceOp(fr, instr, fr.get(instr.X), fr.get(instr.Low), fr.get(instr.High), fr.get(instr.Max))

	case *ssa.Return:
		switch len(instr.Results) {
		case 0:
		case 1:
			fr.result = fr.get(instr.Results[0])
		default:
			var res []value
			for _, rr := range instr.Results {
				res = append(res, fr.get(rr))
			}
			fr.result = tuple(res)
		}
		fr.block = nil
		return kReturn

	case *ssa.Defer:
		// The call is evaluated now and runs at RunDefers (function exit), last registered first.
		// A Go panic ends the path as an outcome of its own: deferred calls do not run then, and
		// recover() has no semantics here.
		fn, args := r.prepareCall(fr, instr, &instr.Call)
		fr.defers = append(fr.defers, deferred{fn: fn, args: args, pos: instr.Pos()})

	case *ssa.RunDefers:
		for len(fr.defers) > 0 {
			d := fr.defers[len(fr.defers)-1]
			fr.defers = fr.defers[:len(fr.defers)-1]
			r.call(fr, d.pos, d.fn, d.args)
		}

	case *ssa.Panic:
		fr.panicAt(instr, "explicit-panic", toString(fr.get(instr.X)))

	case *ssa.Store:
		addr := fr.get(instr.Addr)
		v := fr.get(instr.Val)
		switch a := addr.(type) {
		case *value:
			if a == nil {
				fr.panicAt(instr, "nil-deref", "store through nil pointer")
			}
			store(mustDeref(instr.Addr.Type()), a, v)
		case nativeV:
			r.nativeStore(fr, instr, a, v)
		default:
			panic(unsupported(fmt.Sprintf("store to %T", addr)))
		}

	case *ssa.If:
		succ := 1
		if r.branch(fr.get(instr.Cond)) {
			succ = 0
		}
		fr.prevBlock, fr.block = fr.block, fr.block.Succs[succ]
		return kJump

	case *ssa.Jump:
		fr.prevBlock, fr.block = fr.block, fr.block.Succs[0]
		return kJump

	case *ssa.Alloc:
		var addr *value
		if instr.Heap {
			addr = new(value)
			fr.env[instr] = addr
		} else {
			addr = fr.env[instr].(*value)
		}
		*addr = zero(mustDeref(instr.Type()))

	case *ssa.MakeSlice:
		ln := r.concreteInt(fr.get(instr.Len), "make len")
		cp := r.concreteInt(fr.get(instr.Cap), "make cap")
		if ln < 0 || cp < ln {
			fr.panicAt(instr, "makeslice", "makeslice: len out of range")
		}
		if cp > 1<<20 {
			panic(unsupported("make: huge slice"))
		}
		sl := make([]value, cp)
		tElt := instr.Type().Underlying().(*types.Slice).Elem()
		for i := range sl {
			sl[i] = zero(tElt)
		}
		fr.env[instr] = sl[:ln]

	case *ssa.MakeMap:
		mt := instr.Type().Underlying().(*types.Map)
		fr.env[instr] = &mapV{keyT: mt.Key(), elemT: mt.Elem()}

	case *ssa.Range:
		fr.env[instr] = r.rangeIter(fr, instr, fr.get(instr.X), instr.X.Type())

	case *ssa.Next:
		fr.env[instr] = fr.get(instr.Iter).(iter).next(r)

	case *ssa.FieldAddr:
		x := fr.get(instr.X)
		switch p := x.(type) {
		case *value:
			if p == nil {
				fr.panicAt(instr, "nil-deref", "field access through nil pointer")
			}
			if mv, ok := (*p).(movedNative); ok {
				fname := mustDeref(instr.X.Type()).Underlying().(*types.Struct).Field(instr.Field).Name()
				fr.env[instr] = r.nativeFieldAddr(fr, instr, mv.ptr, fname)
				break
			}
			if nv, ok := (*p).(nativeV); ok {
				// a native struct VALUE held in an interpreter cell (e.g. the element of a native
				// slice copied into a loop variable)
				fname := mustDeref(instr.X.Type()).Underlying().(*types.Struct).Field(instr.Field).Name()
				fr.env[instr] = r.nativeFieldAddr(fr, instr, nv, fname)
				break
			}
			fr.env[instr] = &(*p).(structure)[instr.Field]
		case nativeV:
			fname := mustDeref(instr.X.Type()).Underlying().(*types.Struct).Field(instr.Field).Name()
			fr.env[instr] = r.nativeFieldAddr(fr, instr, p, fname)
		default:
			panic(unsupported(fmt.Sprintf("FieldAddr on %T", x)))
		}

	case *ssa.Field:
		x := fr.get(instr.X)
		switch s := x.(type) {
		case structure:
			fr.env[instr] = s[instr.Field]
		case nativeV:
			fname := instr.X.Type().Underlying().(*types.Struct).Field(instr.Field).Name()
			fv := s.rv.FieldByName(fname)
			if !fv.IsValid() {
				panic(unsupported("native struct " + s.rv.Type().String() + " has no field " + fname))
			}
			fr.env[instr] = r.fromReflect(fv)
		default:
			panic(unsupported(fmt.Sprintf("Field on %T", x)))
		}

	case *ssa.IndexAddr:
		x := fr.get(instr.X)
		idx := fr.get(instr.Index)
		switch x := x.(type) {
		case []value:
			i := r.indexIn(fr, instr, idx, len(x))
			fr.env[instr] = &x[i]
		case *value: // *array
			if x == nil {
				fr.panicAt(instr, "nil-deref", "index of nil array pointer")
			}
			a := (*x).(array)
			i := r.indexIn(fr, instr, idx, len(a))
			fr.env[instr] = &a[i]
		case nativeV:
			i := r.indexIn(fr, instr, idx, x.rv.Len())
			fr.env[instr] = nativeV{x.rv.Index(int(i)).Addr()}
		default:
			panic(unsupported(fmt.Sprintf("IndexAddr on %T", x)))
		}

	case *ssa.Index:
		x := fr.get(instr.X)
		idx := fr.get(instr.Index)
		switch x := x.(type) {
		case array:
			fr.env[instr] = x[r.indexIn(fr, instr, idx, len(x))]
		case string:
			if it, ok := idx.(*Term); ok {
				fr.env[instr] = r.symStringIndex(fr, instr, StrT(x), it)
			} else {
				fr.env[instr] = x[r.indexIn(fr, instr, idx, len(x))]
			}
		case *Term:
			fr.env[instr] = r.symStringIndex(fr, instr, x, asTerm(idx))
		case runesV:
			if !x.bytes {
				panic(unsupported("indexing a rune vector"))
			}
			fr.env[instr] = byteTerm{x.cps[r.indexIn(fr, instr, idx, len(x.cps))]}.norm()
		default:
			panic(unsupported(fmt.Sprintf("Index on %T", x)))
		}

	case *ssa.Lookup:
		fr.env[instr] = r.lookup(fr, instr, fr.get(instr.X), fr.get(instr.Index))

	case *ssa.MapUpdate:
		r.mapUpdate(fr, instr, fr.get(instr.Map), fr.get(instr.Key), fr.get(instr.Value))

	case *ssa.TypeAssert:
		fr.env[instr] = r.typeAssert(fr, instr, fr.get(instr.X))

	case *ssa.MakeClosure:
		var bindings []value
		for _, b := range instr.Bindings {
			bindings = append(bindings, fr.get(b))
		}
		fr.env[instr] = &closure{instr.Fn.(*ssa.Function), bindings}

	default:
		panic(unsupported(fmt.Sprintf("instruction %T at %s", instr, fr.where(instr))))
	}
	return kNext
}

func (r *Run) concreteInt(v value, what string) int64 {
	if t, ok := v.(*Term); ok {
		if t.IsConst() {
			return t.I
		}
		panic(unsupported("symbolic " + what))
	}
	return asInt64(v)
}

// indexIn returns a concrete in-range index, forking for a symbolic one; the out-of-range
// alternative is a run-time panic.
func (r *Run) indexIn(fr *frame, instr poser, idx value, n int) int64 {
	if t, ok := idx.(*Term); ok && !t.IsConst() {
		i := r.concretizeInt(t, 0, int64(n)-1)
		if i < 0 {
			fr.panicAt(instr, "index-out-of-range", "index out of range")
		}
		return i
	}
	i := r.concreteInt(idx, "index")
	if i < 0 || i >= int64(n) {
		fr.panicAt(instr, "index-out-of-range", fmt.Sprintf("index out of range [%d] with length %d", i, n))
	}
	return i
}

func (r *Run) symStringIndex(fr *frame, instr poser, s, i *Term) value {
	inRange := And(Le(IntT(0), i), Lt(i, StrLen(s)))
	if !r.branch(simplifyBool(inRange)) {
		fr.panicAt(instr, "index-out-of-range", "string index out of range")
	}
	return byteTerm{ToCode(StrAt(s, i))}.norm()
}

// byteTerm wraps an Int term standing for a byte value.
type byteTerm struct{ t *Term }

func (b byteTerm) norm() value {
	if b.t.IsConst() {
		return uint8(b.t.I)
	}
	return b.t
}

func (r *Run) prepareCall(fr *frame, instr poser, call *ssa.CallCommon) (fn value, args []value) {
	v := fr.get(call.Value)
	if call.Method == nil {
		fn = v
	} else {
		recv := v.(iface)
		if recv.isNil() {
			fr.panicAt(instr, "nil-deref", "method "+call.Method.Name()+" invoked on nil interface")
		}
		switch rv := recv.v.(type) {
		case nativeV:
			fn = nativeMethod{recv: rv, name: call.Method.Name()}
		case *absObj:
			fn = absMethod{recv: rv, name: call.Method.Name()}
		default:
			f := r.E.Prog.LookupMethod(recv.t, call.Method.Pkg(), call.Method.Name())
			if f == nil {
				panic(fmt.Sprintf("method set for dynamic type %v does not contain %s", recv.t, call.Method))
			}
			fn = f
			args = append(args, recv.v)
		}
	}
	for _, arg := range call.Args {
		args = append(args, fr.get(arg))
	}
	return
}

type nativeMethod struct {
	recv nativeV
	name string
}
type absMethod struct {
	recv *absObj
	name string
}

func (r *Run) call(caller *frame, callpos token.Pos, fn value, args []value) value {
	switch fn := fn.(type) {
	case *ssa.Function:
		if fn == nil {
			panic(goPanic{kind: "nil-deref", msg: "call of nil function", pos: callpos})
		}
		return r.callSSA(caller, callpos, fn, args, nil)
	case *closure:
		return r.callSSA(caller, callpos, fn.Fn, args, fn.Env)
	case *ssa.Builtin:
		return r.callBuiltin(caller, callpos, fn, args)
	case nativeMethod:
		return r.callNativeMethod(caller, callpos, fn.recv, fn.name, args)
	case absMethod:
		return r.callAbsMethod(caller, callpos, fn.recv, fn.name, args)
	case nativeV:
		return r.callNativeFuncValue(caller, callpos, fn, args)
	}
	panic(unsupported(fmt.Sprintf("cannot call %T", fn)))
}

func (r *Run) callSSA(caller *frame, callpos token.Pos, fn *ssa.Function, args []value, env []value) value {
	name := fn.String()
	fr := &frame{r: r, caller: caller, fn: fn, callpos: callpos}
	if stub := r.E.Stubs[name]; stub != nil {
		v := stub(r, fr, fn, args)
		if _, pass := v.(passThrough); !pass {
			r.stubsHit[name] = true
			return v
		}
	}
	if nf, ok := r.E.Natives[name]; ok && reflectValueOf(nf).Kind() == reflect.Func {
		r.stubsHit["native:"+name] = true
		return r.callReflect(callpos, reflectValueOf(nf), args, name)
	}
	interp := fn.Pkg != nil && r.E.Interpreted(fn.Pkg)
	if fn.Pkg == nil {
		// synthetic wrapper/bound/thunk: interpreted if its origin is
		if fn.Synthetic != "" && fn.Blocks != nil {
			interp = true
		}
	}
	if !interp && fn.Pkg != nil && fn.Name() == "init" && fn.Signature.Recv() == nil {
		return nil // initialisers of library packages are not run (their globals are not modelled)
	}
	nativeRecv := false
	if len(args) > 0 && fn.Signature.Recv() != nil {
		switch a0 := args[0].(type) {
		case nativeV, *absObj:
			nativeRecv = true
		case iface:
			switch a0.v.(type) {
			case nativeV, *absObj:
				nativeRecv = true
			}
		}
	}
	if !interp && !nativeRecv && (r.E.Whitelist[name] || (fn.Pkg != nil && r.E.WhitelistPkgs[fn.Pkg.Pkg.Path()])) {
		if fn.Pkg != nil {
			fn.Pkg.Build() // (sync.Once inside: returns only when the package is completely built)
		}
		interp = fn.Blocks != nil
	}
	if !interp {
		if v, ok := r.callNativeFunc(fr, fn, args); ok {
			return v
		}
		if fn.Name() == "init" {
			return nil
		}
		panic(unsupported("callee without semantics: " + name + " (called from " + callerName(caller) + ")"))
	}
	if fn.Pkg != nil {
		fn.Pkg.Build()
	}
	if fn.Blocks == nil {
		if fn.Blocks == nil {
			panic(unsupported("no code for function: " + name))
		}
	}
	if fn.Pkg != nil {
		r.ensureInit(fn.Pkg)
	}
	r.funcs[name] = true
	r.depth++
	if r.depth > 400 {
		panic(unwindExceeded{"call depth at " + name})
	}
	defer func() { r.depth-- }()
	if r.E.Trace {
		fmt.Fprintf(os.Stderr, "%sEntering %s\n", strings.Repeat(" ", r.depth), name)
	}
	fr.env = make(map[ssa.Value]value)
	fr.block = fn.Blocks[0]
	fr.locals = make([]value, len(fn.Locals))
	fr.visits = map[*ssa.BasicBlock]int{}
	for i, l := range fn.Locals {
		fr.locals[i] = zero(mustDeref(l.Type()))
		fr.env[l] = &fr.locals[i]
	}
	for i, p := range fn.Params {
		fr.env[p] = args[i]
	}
	for i, fv := range fn.FreeVars {
		fr.env[fv] = env[i]
	}
	for fr.block != nil {
		runBlock(fr)
	}
	return fr.result
}

func callerName(fr *frame) string {
	if fr == nil {
		return "<top>"
	}
	return fr.fn.String()
}

func runBlock(fr *frame) {
	fr.visits[fr.block]++
	if fr.visits[fr.block] > fr.r.E.MaxBlockVisits {
		panic(unwindExceeded{"loop bound in " + fr.fn.String()})
	}
	nonPhis := executePhis(fr)
	for _, instr := range nonPhis {
		if fr.r.E.Trace {
			if v, ok := instr.(ssa.Value); ok {
				fmt.Fprintln(os.Stderr, strings.Repeat(" ", fr.r.depth), v.Name(), "=", instr)
			} else {
				fmt.Fprintln(os.Stderr, strings.Repeat(" ", fr.r.depth), instr)
			}
		}
		switch visitInstr(fr, instr) {
		case kReturn, kJump:
			return
		}
	}
}

func executePhis(fr *frame) []ssa.Instruction {
	firstNonPhi := -1
	for i, instr := range fr.block.Instrs {
		if _, ok := instr.(*ssa.Phi); !ok {
			firstNonPhi = i
			break
		}
	}
	nonPhis := fr.block.Instrs[firstNonPhi:]
	if firstNonPhi > 0 {
		phis := fr.block.Instrs[:firstNonPhi]
		predIndex := slices.Index(fr.block.Preds, fr.prevBlock)
		fr.phitemps = fr.phitemps[:0]
		for _, phi := range phis {
			phi := phi.(*ssa.Phi)
			fr.phitemps = append(fr.phitemps, fr.get(phi.Edges[predIndex]))
		}
		for i, phi := range phis {
			fr.env[phi.(*ssa.Phi)] = fr.phitemps[i]
		}
	}
	return nonPhis
}

// ---------------------------------------------------------------- running one path

type PathResult struct {
	Model     map[string]interface{} // a model of the path condition (sampled paths only)
	Decisions []int
	Outcome   string // ok | panic | exit | infeasible | unsupported | unwind | engine-bug
	Detail    string
	PanicPos  string
	Run       *Run
}

// ExecPath executes harness fn once following prefix; returns the result and newly found prefixes.
func (e *Engine) ExecPath(s *Solver, harness *ssa.Function, prefix []int, mapOrder bool, sec ...*Solver) (res PathResult) {
	r := &Run{E: e, S: s, Sec: sec, Harness: harness.Name(), globals: map[*ssa.Global]*value{}, prefix: prefix,
		fresh: map[string]int{}, inputSet: map[*Term]bool{}, Reached: map[string]bool{},
		funcs: map[string]bool{}, stubsHit: map[string]bool{}, initDone: map[*ssa.Package]bool{},
		ExploreMapOrder: mapOrder, Env: map[string]value{}, pcVars: map[*Term]bool{}, pcLits: map[*Term]bool{}}
	res.Run = r
	s.Push()
	defer func() {
		if p := recover(); p != nil {
			switch p := p.(type) {
			case goPanic:
				res.Outcome = "panic"
				res.Detail = p.kind + ": " + p.msg
				res.PanicPos = r.pos(p.pos)
				// a run-time panic is an implicit failed assertion
				func() {
					defer func() {
						if q := recover(); q != nil {
							if _, ok := q.(abortPath); ok {
								res.Outcome = "infeasible"
								return
							}
							panic(q)
						}
					}()
					r.assertCond("no-panic", false, res.Detail+" at "+res.PanicPos)
				}()
			case abortPath:
				res.Outcome = "infeasible"
				res.Detail = p.reason
			case exitPath:
				res.Outcome = "exit"
				res.Detail = toString(p.code)
				func() {
					defer func() {
						if q := recover(); q != nil {
							if _, ok := q.(abortPath); ok {
								res.Outcome = "infeasible"
								return
							}
							panic(q)
						}
					}()
					if r.Env["exit-needs-stderr"] == true {
						said := len(r.Stderr) > 0
						for _, e := range r.Effects {
							if e.Op == "print:stderr" {
								said = true
							}
						}
						r.assertCond("failure-has-a-message-on-stderr", said, "os.Exit("+toString(p.code)+") with nothing written to standard error")
					}
					if want, ok := r.Env["expect-exit"]; ok {
						r.assertCond("exit-status", r.eqv(types.Typ[types.Int], p.code, want), "os.Exit("+toString(p.code)+")")
					} else {
						r.assertCond("no-unexpected-exit", false, "os.Exit("+toString(p.code)+") reached")
					}
				}()
			case unsupportedErr:
				res.Outcome = "unsupported"
				res.Detail = p.msg
			case unwindExceeded:
				res.Outcome = "unwind"
				res.Detail = p.where
			default:
				var buf [8192]byte
				n := runtime.Stack(buf[:], false)
				res.Outcome = "engine-bug"
				res.Detail = fmt.Sprintf("%v\n%s", p, buf[:n])
			}
		}
		res.Decisions = append([]int(nil), r.taken...)
		s.Pop()
	}()
	r.ensureInit(harness.Pkg)
	r.call(nil, token.NoPos, harness, nil)
	if e.SamplePath != nil && e.SamplePath(r.taken) {
		if sr, m := r.model(); sr == Sat {
			res.Model = m
		}
	}
	if h := r.Env["__exit_hook"]; h != nil {
		_ = h
	}
	res.Outcome = "ok"
	return
}

func (r *Run) FuncsEntered() []string {
	var l []string
	for k := range r.funcs {
		l = append(l, k)
	}
	sort.Strings(l)
	return l
}
func (r *Run) StubsHit() []string {
	var l []string
	for k := range r.stubsHit {
		l = append(l, k)
	}
	sort.Strings(l)
	return l
}
func (r *Run) Pending() [][]int { return r.pending }
func (r *Run) PC() []*Term      { return r.pc }
func (r *Run) Inputs() []*Term  { return r.inputs }
func (r *Run) UnknownFeas() int { return r.unknownFeas }
func (r *Run) Steps() int       { return r.steps }
