package sym

// Rune-vector strings (C19): code points are Int terms, the length is concrete.

import (
	"fmt"
	"unicode/utf8"
)

func toRunes(v value) runesV {
	switch x := v.(type) {
	case runesV:
		return x
	case string:
		var cps []*Term
		for _, c := range x {
			cps = append(cps, IntT(int64(c)))
		}
		return runesV{cps}
	}
	panic(unsupported(fmt.Sprintf("toRunes(%T)", v)))
}

func runesConcat(a, b runesV) value {
	out := runesV{append(append([]*Term(nil), a.cps...), b.cps...)}
	return out.norm()
}

// norm turns an all-constant vector back into a Go string.
func (rv runesV) norm() value {
	buf := make([]rune, 0, len(rv.cps))
	for _, c := range rv.cps {
		if !c.IsConst() {
			return rv
		}
		buf = append(buf, rune(c.I))
	}
	return string(buf)
}

func runesEq(a runesV, y value) *Term {
	var b runesV
	switch yv := y.(type) {
	case runesV:
		b = yv
	case string:
		if !utf8.ValidString(yv) {
			return TFalse
		}
		b = toRunes(yv)
	case *Term:
		return Eq(runesToStr(a), yv)
	default:
		panic(unsupported(fmt.Sprintf("runesEq with %T", y)))
	}
	if len(a.cps) != len(b.cps) {
		return TFalse
	}
	var cs []*Term
	for i := range a.cps {
		cs = append(cs, Eq(a.cps[i], b.cps[i]))
	}
	return And(cs...)
}

func runesToStr(a runesV) *Term {
	var parts []*Term
	for _, c := range a.cps {
		parts = append(parts, FromCode(c))
	}
	return Concat(parts...)
}
