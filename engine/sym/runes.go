package sym

// Vector strings: symbolic strings of CONCRETE length whose elements are Int terms.
// bytes=true : elements are bytes, all Go string operations have exact byte semantics (C18, slots).
// bytes=false: elements are code points (C19); byte-length-dependent operations are refused.

import (
	"fmt"
	"unicode/utf8"
)

func vecOf(v value, bytesMode bool) runesV {
	switch x := v.(type) {
	case runesV:
		if x.bytes != bytesMode && len(x.cps) > 0 {
			panic(unsupported("mixing byte-vector and rune-vector strings"))
		}
		return runesV{x.cps, bytesMode}
	case string:
		var cps []*Term
		if bytesMode {
			for i := 0; i < len(x); i++ {
				cps = append(cps, IntT(int64(x[i])))
			}
		} else {
			for _, c := range x {
				cps = append(cps, IntT(int64(c)))
			}
		}
		return runesV{cps, bytesMode}
	case uint8:
		return runesV{[]*Term{IntT(int64(x))}, bytesMode}
	}
	panic(unsupported(fmt.Sprintf("vector string from %T", v)))
}

func toRunes(v value) runesV {
	if x, ok := v.(runesV); ok {
		return x
	}
	return vecOf(v, false)
}

func vecMode(a, b value) bool {
	if x, ok := a.(runesV); ok {
		return x.bytes
	}
	if x, ok := b.(runesV); ok {
		return x.bytes
	}
	return false
}

func runesConcat(a, b value) value {
	m := vecMode(a, b)
	x, y := vecOf(a, m), vecOf(b, m)
	out := runesV{append(append([]*Term(nil), x.cps...), y.cps...), m}
	return out.norm()
}

// norm turns an all-constant vector back into a Go string.
func (rv runesV) norm() value {
	if rv.bytes {
		buf := make([]byte, 0, len(rv.cps))
		for _, c := range rv.cps {
			if !c.IsConst() {
				return rv
			}
			buf = append(buf, byte(c.I))
		}
		return string(buf)
	}
	buf := make([]rune, 0, len(rv.cps))
	for _, c := range rv.cps {
		if !c.IsConst() {
			return rv
		}
		buf = append(buf, rune(c.I))
	}
	return string(buf)
}

func runesEq(a runesV, y value) *Term {
	var b runesV
	switch yv := y.(type) {
	case runesV:
		b = yv
	case string:
		if !a.bytes && !utf8.ValidString(yv) {
			return TFalse
		}
		b = vecOf(yv, a.bytes)
	case *Term:
		return Eq(runesToStr(a), yv)
	default:
		panic(unsupported(fmt.Sprintf("runesEq with %T", y)))
	}
	if len(a.cps) != len(b.cps) {
		return TFalse
	}
	var cs []*Term
	for i := range a.cps {
		cs = append(cs, Eq(a.cps[i], b.cps[i]))
	}
	return And(cs...)
}

func runesToStr(a runesV) *Term {
	var parts []*Term
	for _, c := range a.cps {
		parts = append(parts, FromCode(c))
	}
	return Concat(parts...)
}

// ---- byte-vector implementations of the strings functions

func (r *Run) vecHasPrefix(s, p runesV) value {
	if len(p.cps) > len(s.cps) {
		return false
	}
	return simplifyBool(runesEq(runesV{s.cps[:len(p.cps)], s.bytes}, p))
}
func (r *Run) vecHasSuffix(s, p runesV) value {
	if len(p.cps) > len(s.cps) {
		return false
	}
	return simplifyBool(runesEq(runesV{s.cps[len(s.cps)-len(p.cps):], s.bytes}, p))
}
func (r *Run) vecMatchAt(s, p runesV, i int) *Term {
	return runesEq(runesV{s.cps[i : i+len(p.cps)], s.bytes}, p)
}
func (r *Run) vecContains(s, p runesV) value {
	var alts []*Term
	for i := 0; i+len(p.cps) <= len(s.cps); i++ {
		alts = append(alts, r.vecMatchAt(s, p, i))
	}
	return simplifyBool(Or(alts...))
}

// vecIndex forks over the position of the first (or last) occurrence; -1 if none.
func (r *Run) vecIndex(s, p runesV, last bool) int {
	n := len(s.cps) - len(p.cps)
	if n < 0 {
		return -1
	}
	if last {
		for i := n; i >= 0; i-- {
			if r.branch(simplifyBool(r.vecMatchAt(s, p, i))) {
				return i
			}
		}
		return -1
	}
	for i := 0; i <= n; i++ {
		if r.branch(simplifyBool(r.vecMatchAt(s, p, i))) {
			return i
		}
	}
	return -1
}

func isVec(args ...value) bool {
	for _, a := range args {
		if _, ok := a.(runesV); ok {
			return true
		}
	}
	return false
}
