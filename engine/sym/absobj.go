package sym

// Abstract natives: objects whose methods are defined by engine-side tables (symbolic
// signature shapes and environment tokens such as *os.File / fs.FileInfo).

import (
	"fmt"
	"go/token"
	"go/types"
)

type absObj struct {
	class string
	id    int
	attrs map[string]value
	meth  map[string]func(r *Run, self *absObj, args []value) value
	// asserts lists the (unqualified) type names this object may be asserted to
	asserts map[string]bool
}

func (a *absObj) assertTo(t types.Type) bool {
	if a.asserts == nil {
		return false
	}
	return a.asserts[types.TypeString(t, nil)]
}

func (r *Run) callAbsMethod(caller *frame, callpos token.Pos, recv *absObj, name string, args []value) value {
	if recv == nil {
		panic(goPanic{kind: "nil-deref", msg: "method " + name + " on nil abstract object", pos: callpos})
	}
	if m, ok := recv.meth[name]; ok {
		return m(r, recv, args)
	}
	panic(unsupported(fmt.Sprintf("abstract object %s has no method %s", recv.class, name)))
}
