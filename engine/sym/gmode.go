package sym

// Mode G: arbitrary operands of generated functions, deep equality and aliasing obligations.

import (
	"fmt"
	"go/types"

	"golang.org/x/tools/go/ssa"

	"verif/engine/vrt"
)

func (r *Run) arbitrary(name string, t types.Type, depth int) value {
	return r.arbitraryB(name, t, depth, false)
}

func (r *Run) arbitraryB(name string, t types.Type, depth int, small bool) value {
	switch tt := t.Underlying().(type) {
	case *types.Basic:
		switch {
		case tt.Info()&types.IsBoolean != 0:
			return r.newInput(name, SBool)
		case tt.Info()&types.IsInteger != 0:
			return r.newInput(name, SInt)
		case tt.Info()&types.IsString != 0:
			return r.newInput(name, SStr)
		case tt.Info()&types.IsFloat != 0:
			return r.newInput(name, SOpaque)
		}
		return zero(t)
	case *types.Struct:
		st := make(structure, tt.NumFields())
		for i := range st {
			st[i] = r.arbitraryB(name+"."+tt.Field(i).Name(), tt.Field(i).Type(), depth, small)
		}
		return st
	case *types.Pointer:
		if depth < vrt.ArbMaxDepth && r.memoBranch(name+"?") {
			cell := new(value)
			*cell = r.arbitraryB(name+"*", tt.Elem(), depth+1, small)
			return cell
		}
		return (*value)(nil)
	case *types.Slice:
		var n int
		if small {
			if r.memoChoiceVals(name+"#", []int{-1, 1}) == 0 {
				n = -1
			} else {
				n = 1
			}
		} else {
			n = r.memoChoice(name+"#", vrt.ArbMaxSlice+2) - 1 // -1 = nil
		}
		if n < 0 {
			return []value(nil)
		}
		s := make([]value, n)
		for i := range s {
			s[i] = r.arbitraryB(fmt.Sprintf("%s[%d]", name, i), tt.Elem(), depth+1, small)
		}
		return s
	case *types.Array:
		// an array is a value: every element is arbitrary
		a := make(array, int(tt.Len()))
		for i := range a {
			a[i] = r.arbitraryB(fmt.Sprintf("%s[%d]", name, i), tt.Elem(), depth+1, small)
		}
		return a
	case *types.Map:
		// a map operand is nil or an empty map of its own (assignment shares it; nil-ness is what
		// deep equality observes)
		if r.memoBranch(name + "?") {
			return &mapV{keyT: tt.Key(), elemT: tt.Elem()}
		}
		return (*mapV)(nil)
	}
	return zero(t)
}

// memoBranch / memoChoice: fork once per name and path (repeated Arbitrary calls with the same
// name must build the same shape).
func (r *Run) memoBranch(name string) bool {
	key := "arb:" + name
	if v, ok := r.Env[key]; ok {
		return v.(bool)
	}
	b := r.branch(r.newInput(name, SBool))
	r.Env[key] = b
	return b
}

func (r *Run) memoChoiceVals(name string, vals []int) int {
	key := "arb:" + name
	if v, ok := r.Env[key]; ok {
		return v.(int)
	}
	iv := r.newInput(name, SInt)
	conds := make([]*Term, len(vals))
	for i := range conds {
		conds[i] = Eq(iv, IntT(int64(vals[i])))
	}
	k := r.decide(conds)
	r.Env[key] = k
	return k
}

func (r *Run) memoChoice(name string, n int) int {
	key := "arb:" + name
	if v, ok := r.Env[key]; ok {
		return v.(int)
	}
	iv := r.newInput(name, SInt)
	conds := make([]*Term, n)
	for i := range conds {
		conds[i] = Eq(iv, IntT(int64(i-1)))
	}
	k := r.decide(conds)
	r.Env[key] = k
	return k
}

// deepEq: deep equality as a bool or Bool term.
func (r *Run) deepEq(t types.Type, x, y value, seen map[[2]*value]bool, depth int) value {
	if depth > 12 {
		return true
	}
	switch tt := t.Underlying().(type) {
	case *types.Pointer:
		px, ok1 := x.(*value)
		py, ok2 := y.(*value)
		if !ok1 || !ok2 {
			return r.eqv(t, x, y)
		}
		if px == nil || py == nil {
			return px == nil && py == nil
		}
		k := [2]*value{px, py}
		if seen[k] {
			return true
		}
		seen[k] = true
		return r.deepEq(tt.Elem(), *px, *py, seen, depth+1)
	case *types.Struct:
		xs, ys := x.(structure), y.(structure)
		var acc value = true
		for i := 0; i < tt.NumFields(); i++ {
			acc = andV(acc, r.deepEq(tt.Field(i).Type(), xs[i], ys[i], seen, depth+1))
		}
		return acc
	case *types.Slice:
		xs, ok1 := x.([]value)
		ys, ok2 := y.([]value)
		if !ok1 || !ok2 {
			return toString(x) == toString(y)
		}
		if (xs == nil) != (ys == nil) || len(xs) != len(ys) {
			return false
		}
		var acc value = true
		for i := range xs {
			acc = andV(acc, r.deepEq(tt.Elem(), xs[i], ys[i], seen, depth+1))
		}
		return acc
	case *types.Interface:
		xi, yi := x.(iface), y.(iface)
		if xi.isNil() || yi.isNil() {
			return xi.isNil() && yi.isNil()
		}
		if xi.t != nil && yi.t != nil {
			if !types.Identical(xi.t, yi.t) {
				return false
			}
			return r.deepEq(xi.t, xi.v, yi.v, seen, depth+1)
		}
		return r.eqv(t, x, y)
	case *types.Array:
		xs, ys := x.(array), y.(array)
		var acc value = true
		for i := range xs {
			acc = andV(acc, r.deepEq(tt.Elem(), xs[i], ys[i], seen, depth+1))
		}
		return acc
	case *types.Map, *types.Signature, *types.Chan:
		return isNilRef(x) == isNilRef(y)
	}
	return r.eqv(t, x, y)
}

// backing collects the element slots of every slice reachable from v.
func backingOf(t types.Type, v value, out map[*value]bool, seen map[*value]bool, depth int, stop ...map[*value]bool) {
	if depth > 10 {
		return
	}
	switch tt := t.Underlying().(type) {
	case *types.Pointer:
		p, ok := v.(*value)
		if !ok || p == nil || seen[p] || (len(stop) > 0 && stop[0][p]) {
			return
		}
		seen[p] = true
		backingOf(tt.Elem(), *p, out, seen, depth+1, stop...)
	case *types.Struct:
		s, ok := v.(structure)
		if !ok {
			return
		}
		for i := 0; i < tt.NumFields(); i++ {
			backingOf(tt.Field(i).Type(), s[i], out, seen, depth+1, stop...)
		}
	case *types.Slice:
		s, ok := v.([]value)
		if !ok || s == nil {
			return
		}
		full := s[:cap(s)]
		for i := range full {
			out[&full[i]] = true
		}
		for i := range s {
			backingOf(tt.Elem(), s[i], out, seen, depth+1, stop...)
		}
	case *types.Interface:
		if iv, ok := v.(iface); ok && iv.t != nil {
			backingOf(iv.t, iv.v, out, seen, depth+1, stop...)
		}
	}
}

func GModeStubs(st map[string]StubFn, prefix string) {
	st[prefix+"Arbitrary"] = func(r *Run, fr *frame, fn *ssa.Function, a []value) value {
		name := a[0].(string)
		iv := a[1].(iface)
		pt, ok := iv.t.(*types.Pointer)
		if !ok {
			panic(unsupported("Arbitrary needs a pointer"))
		}
		p := iv.v.(*value)
		store(pt.Elem(), p, r.arbitrary(name, pt.Elem(), 0))
		return nil
	}
	st[prefix+"ArbitrarySmall"] = func(r *Run, fr *frame, fn *ssa.Function, a []value) value {
		name := a[0].(string)
		iv := a[1].(iface)
		pt := iv.t.(*types.Pointer)
		store(pt.Elem(), iv.v.(*value), r.arbitraryB(name, pt.Elem(), 0, true))
		return nil
	}
	st[prefix+"AssertEqual"] = func(r *Run, fr *frame, fn *ssa.Function, a []value) value {
		x, y := a[1].(iface), a[2].(iface)
		var c value
		switch {
		case x.isNil() || y.isNil():
			c = x.isNil() && y.isNil()
		case x.t != nil && y.t != nil && !types.Identical(x.t, y.t):
			c = false
		case x.t == nil || y.t == nil:
			c = r.eqv(types.NewInterfaceType(nil, nil), x, y)
		default:
			c = r.deepEq(x.t, x.v, y.v, map[[2]*value]bool{}, 0)
		}
		r.assertCond(a[0].(string), c, clipS(toString(x.v), 300)+" vs "+clipS(toString(y.v), 300))
		return nil
	}
	st[prefix+"AssertNoAlias"] = func(r *Run, fr *frame, fn *ssa.Function, a []value) value {
		x, y := a[1].(iface), a[2].(iface)
		// (a slice behind a pointer both sides SHARE belongs to one shared object, see vrt.AssertNoAlias)
		bx, by := map[*value]bool{}, map[*value]bool{}
		ptrsY := map[*value]bool{}
		if y.t != nil {
			backingOf(y.t, y.v, by, ptrsY, 0)
		}
		if x.t != nil {
			backingOf(x.t, x.v, bx, map[*value]bool{}, 0, ptrsY)
		}
		ok := true
		for p := range bx {
			if by[p] {
				ok = false
			}
		}
		r.assertCond(a[0].(string), ok, "slices share a backing array")
		return nil
	}
}

func clipS(s string, n int) string {
	if len(s) > n {
		return s[:n] + "…"
	}
	return s
}

// AliasStubs registers the vrt stubs under a second package path (the corpus module's copy).
func AliasStubs(st map[string]StubFn, from, to string) {
	for name, f := range st {
		if len(name) > len(from) && name[:len(from)] == from {
			st[to+name[len(from):]] = f
		}
	}
}
