package sym

// Harness-activated summaries of convergen's pipeline stages (C15: runner.Run is executed for
// real, the stages return arbitrary values/errors and record that they ran).

import (
	"golang.org/x/tools/go/ssa"
)

const cg = "github.com/reedom/convergen/pkg/"

func (r *Run) stagesStubbed() bool { return r.Env["stages"] == "stub" }

func StageStubs(st map[string]StubFn) {
	stage := func(name string, ok func(r *Run, a []value) value, fail func(r *Run) value) StubFn {
		return func(r *Run, fr *frame, fn *ssa.Function, a []value) value {
			if !r.stagesStubbed() {
				return passThrough{}
			}
			r.Effects = append(r.Effects, Effect{Op: "stage:" + name})
			err := r.nondetErr(name + ".err")
			if !err.(iface).isNil() {
				if fail == nil {
					return err
				}
				return tuple{fail(r), err}
			}
			return ok(r, a)
		}
	}
	st[cg+"parser.NewParser"] = stage("NewParser", func(r *Run, a []value) value {
		r.Env["stage.src"] = a[0]
		r.Env["stage.dst"] = a[1]
		return tuple{r.newToken("parser", nil), iface{}}
	}, func(r *Run) value { return (*value)(nil) })
	st["(*"+cg+"parser.Parser).Parse"] = stage("Parse", func(r *Run, a []value) value {
		n := r.choose(3) // 0..2 converter interfaces
		list := make([]value, n)
		for i := range list {
			marker := r.newInput(r.freshName("marker"), SStr)
			r.assume(Eq(StrLen(marker), IntT(21)))
			cell := new(value)
			*cell = structure{marker, []value(nil)}
			list[i] = cell
		}
		return tuple{list, iface{}}
	}, func(r *Run) value { return []value(nil) })
	st["(*"+cg+"parser.Parser).CreateBuilder"] = func(r *Run, fr *frame, fn *ssa.Function, a []value) value {
		if !r.stagesStubbed() {
			return passThrough{}
		}
		return r.newToken("builder", nil)
	}
	st["(*"+cg+"builder.FunctionBuilder).CreateFunctions"] = stage("CreateFunctions", func(r *Run, a []value) value {
		return tuple{[]value{}, iface{}}
	}, func(r *Run) value { return []value(nil) })
	st["(*"+cg+"parser.Parser).GenerateBaseCode"] = stage("GenerateBaseCode", func(r *Run, a []value) value {
		return tuple{r.newInput(r.freshName("basecode"), SStr), iface{}}
	}, func(r *Run) value { return "" })
}
