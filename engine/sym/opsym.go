package sym

// Symbolic-aware operators layered over the concrete ones taken from x/tools' interp.

import (
	"fmt"
	"go/token"
	"go/types"
	"reflect"
	"strings"

	"golang.org/x/tools/go/ssa"
)

func isIntKind(t types.Type) bool {
	b, ok := t.Underlying().(*types.Basic)
	return ok && b.Info()&types.IsInteger != 0
}
func isStringKind(t types.Type) bool {
	b, ok := t.Underlying().(*types.Basic)
	return ok && b.Info()&types.IsString != 0
}

func (r *Run) binop(fr *frame, instr poser, op token.Token, t types.Type, x, y value) value {
	switch op {
	case token.EQL:
		return r.eqv(t, x, y)
	case token.NEQ:
		return notV(r.eqv(t, x, y))
	}
	_, xs := x.(*Term)
	_, ys := y.(*Term)
	_, xr := x.(runesV)
	_, yr := y.(runesV)
	if xr || yr {
		if op == token.ADD {
			return runesConcat(x, y)
		}
		panic(unsupported(fmt.Sprintf("binop %s on rune vector", op)))
	}
	if !xs && !ys {
		switch op {
		case token.QUO, token.REM:
			if isIntKind(t) && asInt64(y) == 0 {
				fr.panicAt(instr, "divide-by-zero", "integer divide by zero")
			}
		case token.SHL, token.SHR:
			if yi, ok := y.(int); ok && yi < 0 {
				fr.panicAt(instr, "negative-shift", "negative shift amount")
			}
		}
		return binopConc(op, t, x, y)
	}
	// symbolic
	if isStringKind(t) {
		a, b := asTerm(x), asTerm(y)
		switch op {
		case token.ADD:
			return Concat(a, b)
		}
		panic(unsupported(fmt.Sprintf("symbolic string binop %s", op)))
	}
	if xt, ok := x.(*Term); ok && xt.Sort == SBool {
		panic(unsupported(fmt.Sprintf("symbolic bool binop %s", op)))
	}
	if xt, ok := x.(*Term); ok && xt.Sort == SOpaque {
		panic(unsupported(fmt.Sprintf("opaque binop %s", op)))
	}
	a, b := asTerm(x), asTerm(y)
	switch op {
	case token.ADD:
		return Add(a, b)
	case token.SUB:
		return Sub(a, b)
	case token.MUL:
		if a.IsConst() || b.IsConst() {
			return Mul(a, b)
		}
	case token.LSS:
		return simplifyBool(Lt(a, b))
	case token.LEQ:
		return simplifyBool(Le(a, b))
	case token.GTR:
		return simplifyBool(Lt(b, a))
	case token.GEQ:
		return simplifyBool(Le(b, a))
	}
	panic(unsupported(fmt.Sprintf("symbolic int binop %s at %s", op, fr.where(instr))))
}

func (r *Run) unop(fr *frame, instr *ssa.UnOp, x value) value {
	switch instr.Op {
	case token.MUL: // load
		switch p := x.(type) {
		case *value:
			if p == nil {
				fr.panicAt(instr, "nil-deref", "nil pointer dereference")
			}
			return load(mustDeref(instr.X.Type()), p)
		case nativeV:
			if nativeIsNil(p) {
				fr.panicAt(instr, "nil-deref", "nil pointer dereference (native)")
			}
			return r.fromReflect(p.rv.Elem())
		}
		panic(unsupported(fmt.Sprintf("load from %T", x)))
	case token.NOT:
		return notV(x)
	case token.SUB:
		if t, ok := x.(*Term); ok {
			return Neg(t)
		}
	}
	if _, ok := x.(*Term); ok {
		panic(unsupported(fmt.Sprintf("symbolic unop %s", instr.Op)))
	}
	return unopConc(instr, x)
}

func basicKind(t types.Type) types.BasicKind {
	if b, ok := t.Underlying().(*types.Basic); ok {
		return b.Kind()
	}
	return types.Invalid
}

func (r *Run) conv(tDst, tSrc types.Type, x value) value {
	switch xv := x.(type) {
	case *Term:
		ks, kd := basicKind(tSrc), basicKind(tDst)
		if ks == kd && ks != types.Invalid {
			return xv
		}
		if xv.Sort == SStr {
			if sl, ok := tDst.Underlying().(*types.Slice); ok && basicKind(sl.Elem()) == types.Byte {
				return symBytes{xv}
			}
		}
		// numeric conversion between different kinds: uninterpreted, identical on both sides
		if kd != types.Invalid && ks != types.Invalid && kd != types.String && ks != types.String {
			s := SInt
			if b := tDst.Underlying().(*types.Basic); b.Info()&types.IsFloat != 0 {
				s = SOpaque
			}
			return UF(fmt.Sprintf("conv_%s_%s", types.Typ[ks].Name(), types.Typ[kd].Name()), s, xv)
		}
		if ks != types.String && kd == types.String && xv.Sort == SInt {
			return FromCode(xv) // string(rune) for code points; callers keep to the BMP
		}
		panic(unsupported(fmt.Sprintf("symbolic conversion %s -> %s", tSrc, tDst)))
	case runesV:
		if basicKind(tDst) == types.String {
			return xv
		}
		panic(unsupported("conversion of rune vector"))
	case symBytes:
		if basicKind(tDst) == types.String {
			return xv.s
		}
		panic(unsupported("conversion of symbolic bytes"))
	case nativeV:
		// []byte(native) etc.
		return r.fromReflectConv(xv, tDst)
	}
	return convConc(tDst, tSrc, x)
}

func (r *Run) sliceOp(fr *frame, instr *ssa.Slice, x, lo, hi, max value) value {
	switch xv := x.(type) {
	case *Term: // symbolic string
		n := StrLen(xv)
		var l, h *Term = IntT(0), n
		if lo != nil {
			l = asTerm(lo)
		}
		if hi != nil {
			h = asTerm(hi)
		}
		ok := And(Le(IntT(0), l), Le(l, h), Le(h, n))
		if !r.branch(simplifyBool(ok)) {
			fr.panicAt(instr, "slice-bounds", "slice bounds out of range (string)")
		}
		return termOrString(r.substrFresh(xv, l, h))
	case string:
		_, ls := lo.(*Term)
		_, hs := hi.(*Term)
		if ls || hs {
			return r.sliceOp(fr, instr, StrT(xv), lo, hi, max)
		}
	case nativeV:
		n := xv.rv.Len()
		l, h := 0, n
		if lo != nil {
			l = int(r.concreteInt(lo, "slice lo"))
		}
		if hi != nil {
			h = int(r.concreteInt(hi, "slice hi"))
		}
		if l < 0 || h < l || h > xv.rv.Cap() {
			fr.panicAt(instr, "slice-bounds", "slice bounds out of range")
		}
		return nativeV{xv.rv.Slice(l, h)}
	case symBytes:
		panic(unsupported("slicing symbolic bytes"))
	case runesV:
		if !xv.bytes {
			panic(unsupported("slicing a rune vector"))
		}
		n := len(xv.cps)
		l, h := int64(0), int64(n)
		if lo != nil {
			l = r.concreteOrFork(lo, 0, int64(n))
		}
		if hi != nil {
			h = r.concreteOrFork(hi, 0, int64(n))
		}
		if l < 0 || h < l || h > int64(n) {
			fr.panicAt(instr, "slice-bounds", "slice bounds out of range (string)")
		}
		return runesV{xv.cps[l:h], true}.norm()
	}
	var Len, Cap int
	switch xv := x.(type) {
	case string:
		Len = len(xv)
		Cap = Len
	case []value:
		Len = len(xv)
		Cap = cap(xv)
	case *value:
		if xv == nil {
			fr.panicAt(instr, "nil-deref", "slice of nil array pointer")
		}
		a := (*xv).(array)
		Len = len(a)
		Cap = cap(a)
	default:
		panic(unsupported(fmt.Sprintf("slice of %T", x)))
	}
	l := int64(0)
	if lo != nil {
		l = r.concreteInt(lo, "slice lo")
	}
	h := int64(Len)
	if hi != nil {
		h = r.concreteInt(hi, "slice hi")
	}
	m := int64(Cap)
	if max != nil {
		m = r.concreteInt(max, "slice max")
	}
	if l < 0 || h < l || m < h || m > int64(Cap) {
		fr.panicAt(instr, "slice-bounds", fmt.Sprintf("slice bounds out of range [%d:%d:%d] with capacity %d", l, h, m, Cap))
	}
	switch xv := x.(type) {
	case string:
		return xv[l:h]
	case []value:
		return xv[l:h:m]
	case *value:
		return []value((*xv).(array))[l:h:m]
	}
	panic("unreachable")
}

// substrFresh returns s[l:h] (bounds already established) as a fresh variable defined by a word
// equation s = pre ++ res ++ post with length constraints - the form z3's sequence solver handles
// best; constant cases are folded.
func (r *Run) substrFresh(s, l, h *Term) *Term {
	if s.IsConst() && l.IsConst() && h.IsConst() {
		return StrT(s.S[l.I:h.I])
	}
	n := StrLen(s)
	if l.IsConst() && l.I == 0 && h == n {
		return s
	}
	if l == h {
		return StrT("")
	}
	res := r.newInput(r.freshName("slice"), SStr)
	var parts []*Term
	if !(l.IsConst() && l.I == 0) {
		pre := r.newInput(r.freshName("slice.pre"), SStr)
		parts = append(parts, pre)
		r.assume(Eq(StrLen(pre), l))
	}
	parts = append(parts, res)
	if h != n {
		post := r.newInput(r.freshName("slice.post"), SStr)
		parts = append(parts, post)
		r.assume(Eq(StrLen(res), Sub(h, l)))
	}
	r.assume(Eq(s, Concat(parts...)))
	return res
}

// concreteOrFork returns a concrete value for an int, forking over [lo,hi] when symbolic
// (a value outside the range comes back as lo-1).
func (r *Run) concreteOrFork(v value, lo, hi int64) int64 {
	if t, ok := v.(*Term); ok && !t.IsConst() {
		return r.concretizeInt(t, lo, hi)
	}
	return r.concreteInt(v, "int")
}

func termOrString(t *Term) value {
	if t.IsConst() && t.Sort == SStr {
		return t.S
	}
	return t
}

// ---------------------------------------------------------------- maps

// keyMatch forks on equality of a (possibly symbolic) key with an entry key.
func (r *Run) keyMatch(t types.Type, a, b value) bool {
	return r.branch(r.eqv(t, a, b))
}

func (r *Run) mapFind(m *mapV, key value) int {
	if m == nil {
		return -1
	}
	for i := range m.entries {
		if r.keyMatch(m.keyT, m.entries[i].k, key) {
			return i
		}
	}
	return -1
}

func (r *Run) lookup(fr *frame, instr *ssa.Lookup, x, idx value) value {
	switch m := x.(type) {
	case *mapV:
		var v value
		i := r.mapFind(m, idx)
		ok := i >= 0
		if ok {
			v = copyVal(m.entries[i].v)
		} else {
			v = zero(instr.X.Type().Underlying().(*types.Map).Elem())
		}
		if instr.CommaOk {
			return tuple{v, ok}
		}
		return v
	case nativeV:
		return r.nativeMapLookup(fr, instr, m, idx)
	case runesV:
		if !m.bytes {
			panic(unsupported("indexing a rune vector"))
		}
		i := r.indexIn(fr, instr, idx, len(m.cps))
		return byteTerm{m.cps[i]}.norm()
	case string, *Term:
		// string index via Lookup (s[i] on string operand)
		s := asTerm(m)
		if it, ok := idx.(*Term); ok || !s.IsConst() {
			_ = it
			return r.symStringIndex(fr, instr, s, asTerm(idx))
		}
		i := r.indexIn(fr, instr, idx, len(s.S))
		return s.S[i]
	}
	panic(unsupported(fmt.Sprintf("lookup in %T", x)))
}

func (r *Run) mapUpdate(fr *frame, instr *ssa.MapUpdate, m, key, v value) {
	switch m := m.(type) {
	case *mapV:
		if m == nil {
			fr.panicAt(instr, "nil-map-write", "assignment to entry in nil map")
		}
		if i := r.mapFind(m, key); i >= 0 {
			m.entries[i].v = v
			return
		}
		m.entries = append(m.entries, mapEntry{key, v})
	default:
		panic(unsupported(fmt.Sprintf("map update on %T", m)))
	}
}

func (r *Run) rangeIter(fr *frame, instr *ssa.Range, x value, t types.Type) iter {
	switch x := x.(type) {
	case *mapV:
		var es []mapEntry
		if x != nil {
			es = append(es, x.entries...)
		}
		if r.ExploreMapOrder && len(es) > 1 && r.permuteHere() {
			// choose a permutation: n * (n-1) * ... forks
			perm := make([]mapEntry, 0, len(es))
			rest := append([]mapEntry(nil), es...)
			for len(rest) > 1 {
				k := r.choose(len(rest))
				perm = append(perm, rest[k])
				rest = append(rest[:k:k], rest[k+1:]...)
			}
			perm = append(perm, rest[0])
			es = perm
		}
		return &mapIter{entries: es}
	case string:
		return &stringIter{Reader: strings.NewReader(x)}
	case runesV:
		if x.bytes {
			r.asciiVector(x.cps, "range")
		} else {
			panic(unsupported("range over a rune vector (byte offsets are symbolic)"))
		}
		return &vecIter{v: x}
	case nativeV:
		return r.nativeRange(x)
	}
	panic(unsupported(fmt.Sprintf("range over %T", x)))
}

// permuteHere: map iteration orders are explored at ONE range site per path (every site is
// tried, every permutation at that site; all other sites iterate in insertion order). An
// order-dependence that needs two simultaneously permuted sites is outside the bound.
func (r *Run) permuteHere() bool {
	if r.permuted {
		return false
	}
	if r.choose(2) == 1 {
		r.permuted = true
		return true
	}
	return false
}

// ---------------------------------------------------------------- type assertions

func (r *Run) typeAssert(fr *frame, instr *ssa.TypeAssert, x value) value {
	itf, ok := x.(iface)
	if !ok {
		panic(fmt.Sprintf("typeAssert on %T", x))
	}
	var v value
	errs := ""
	switch {
	case itf.isNil():
		errs = fmt.Sprintf("interface conversion: interface is nil, not %s", instr.AssertedType)
	default:
		if nv, isN := itf.v.(nativeV); isN {
			if nativeAssert(nv, instr.AssertedType) {
				if types.IsInterface(instr.AssertedType) {
					v = itf
				} else {
					v = nv
				}
			} else {
				errs = fmt.Sprintf("interface conversion: interface is %s, not %s", nv.rv.Type(), instr.AssertedType)
			}
		} else if ao, isA := itf.v.(*absObj); isA {
			if ao.assertTo(instr.AssertedType) {
				if types.IsInterface(instr.AssertedType) {
					v = itf
				} else {
					v = ao
				}
			} else {
				errs = fmt.Sprintf("interface conversion: interface is abstract %s, not %s", ao.class, instr.AssertedType)
			}
		} else if idst, ok := instr.AssertedType.Underlying().(*types.Interface); ok {
			v = itf
			if meth, _ := types.MissingMethod(itf.t, idst, true); meth != nil {
				errs = fmt.Sprintf("interface conversion: %v is not %v: missing method %s", itf.t, idst, meth.Name())
			}
		} else if itf.t != nil && types.Identical(itf.t, instr.AssertedType) {
			v = itf.v
		} else {
			errs = fmt.Sprintf("interface conversion: interface is %s, not %s", itf.t, instr.AssertedType)
		}
	}
	if errs != "" {
		if !instr.CommaOk {
			fr.panicAt(instr, "type-assertion", errs)
		}
		return tuple{zeroForAssert(instr.AssertedType), false}
	}
	if instr.CommaOk {
		return tuple{v, true}
	}
	return v
}

func zeroForAssert(t types.Type) value {
	return zero(t)
}

// ---------------------------------------------------------------- builtins

func elemSize(sizes types.Sizes, t types.Type) int64 {
	defer func() { recover() }()
	return sizes.Sizeof(t)
}

var sizeClasses = []int64{0, 8, 16, 24, 32, 48, 64, 80, 96, 112, 128, 144, 160, 176, 192, 208, 224, 240, 256, 288, 320, 352, 384, 416, 448, 480, 512, 576, 640, 704, 768, 896, 1024, 1152, 1280, 1408, 1536, 1792, 2048}

func roundupsize(n int64) int64 {
	for _, c := range sizeClasses {
		if n <= c {
			return c
		}
	}
	return (n + 8191) / 8192 * 8192
}

// growCap mirrors runtime.growslice for small slices (amd64).
func growCap(oldCap, newLen int, es int64) int {
	newcap := oldCap
	doublecap := newcap + newcap
	if newLen > doublecap {
		newcap = newLen
	} else if oldCap < 256 {
		newcap = doublecap
	} else {
		for newcap < newLen {
			newcap += (newcap + 3*256) >> 2
		}
	}
	if es <= 0 {
		return newcap
	}
	mem := roundupsize(int64(newcap) * es)
	return int(mem / es)
}

func (r *Run) appendValues(t types.Type, dst []value, src []value) []value {
	if len(src) == 0 {
		return dst
	}
	need := len(dst) + len(src)
	if need <= cap(dst) {
		out := dst[:need]
		copy(out[len(dst):], src)
		return out
	}
	es := int64(8)
	if sl, ok := t.Underlying().(*types.Slice); ok {
		es = elemSize(r.E.Sizes, sl.Elem())
	}
	nc := growCap(cap(dst), need, es)
	if nc < need {
		nc = need
	}
	out := make([]value, need, nc)
	copy(out, dst)
	copy(out[len(dst):], src)
	var tE types.Type
	if sl, ok := t.Underlying().(*types.Slice); ok {
		tE = sl.Elem()
	}
	if tE != nil {
		full := out[:nc]
		for i := need; i < nc; i++ {
			full[i] = zero(tE)
		}
	}
	return out
}

func (r *Run) seqToValues(v value) []value {
	switch x := v.(type) {
	case []value:
		return x
	case nativeV:
		n := x.rv.Len()
		out := make([]value, n)
		for i := 0; i < n; i++ {
			out[i] = r.fromReflect(x.rv.Index(i))
		}
		return out
	case string:
		out := make([]value, len(x))
		for i := range x {
			out[i] = x[i]
		}
		return out
	}
	panic(unsupported(fmt.Sprintf("sequence of %T", v)))
}

func (r *Run) callBuiltin(caller *frame, callpos token.Pos, fn *ssa.Builtin, args []value) value {
	switch fn.Name() {
	case "append":
		if len(args) == 1 {
			return args[0]
		}
		t := fn.Type().(*types.Signature).Params().At(0).Type()
		if nv, ok := args[0].(nativeV); ok {
			// append to a native slice: result becomes an interpreter slice of converted elements
			base := r.seqToValues(nv)
			base = base[:len(base):len(base)]
			return r.appendValues(t, base, r.seqToValues(args[1]))
		}
		if sb, ok := args[0].(symBytes); ok {
			return symBytes{termOrString(Concat(asTerm(sb.s), asTerm(bytesToStr(args[1]))))}
		}
		if _, ok := args[1].(*Term); ok {
			return symBytes{termOrString(Concat(asTerm(bytesToStr(args[0])), asTerm(args[1])))}
		}
		return r.appendValues(t, args[0].([]value), r.seqToValues(args[1]))

	case "copy":
		src := r.seqToValues(args[1])
		switch dst := args[0].(type) {
		case []value:
			n := copy(dst, src)
			for i := 0; i < n; i++ {
				dst[i] = copyVal(dst[i])
			}
			return n
		case nativeV:
			if sn, ok := args[1].(nativeV); ok && sn.rv.Kind() == reflect.Slice && sn.rv.Type() == dst.rv.Type() {
				// both native: the run-time's own copy (memmove semantics for overlapping slices)
				return reflect.Copy(dst.rv, sn.rv)
			}
			n := dst.rv.Len()
			if len(src) < n {
				n = len(src)
			}
			for i := 0; i < n; i++ {
				dst.rv.Index(i).Set(r.toReflect(src[i], dst.rv.Type().Elem()))
			}
			return n
		}
		panic(unsupported(fmt.Sprintf("copy into %T", args[0])))

	case "delete":
		m := args[0].(*mapV)
		if m == nil {
			return nil
		}
		if i := r.mapFind(m, args[1]); i >= 0 {
			m.entries = append(m.entries[:i:i], m.entries[i+1:]...)
		}
		return nil

	case "print", "println":
		return nil

	case "len":
		switch x := args[0].(type) {
		case string:
			return len(x)
		case *Term:
			return termOrInt(StrLen(x))
		case runesV:
			if x.bytes {
				return len(x.cps)
			}
			return lenV(x) // UTF-8 length of the code points
		case symBytes:
			return termOrInt(StrLen(asTerm(x.s)))
		case array:
			return len(x)
		case *value:
			return len((*x).(array))
		case []value:
			return len(x)
		case *mapV:
			if x == nil {
				return 0
			}
			return len(x.entries)
		case nativeV:
			if nativeIsNil(x) {
				return 0
			}
			return x.rv.Len()
		}
		panic(unsupported(fmt.Sprintf("len of %T", args[0])))

	case "cap":
		switch x := args[0].(type) {
		case array:
			return cap(x)
		case *value:
			return cap((*x).(array))
		case []value:
			return cap(x)
		case nativeV:
			return x.rv.Cap()
		}
		panic(unsupported(fmt.Sprintf("cap of %T", args[0])))

	case "min":
		return foldLeft(min, args)
	case "max":
		return foldLeft(max, args)

	case "panic":
		panic(goPanic{kind: "explicit-panic", msg: toString(args[0]), pos: callpos})

	case "ssa:deferstack":
		return nil // only consumed by Defer instructions, which are refused

	case "ssa:wrapnilchk":
		recv := args[0]
		if p, ok := recv.(*value); ok && p == nil {
			panic(goPanic{kind: "nil-deref", msg: fmt.Sprintf("value method %v.%v called using nil pointer", args[1], args[2]), pos: callpos})
		}
		if nv, ok := recv.(nativeV); ok && nativeIsNil(nv) {
			panic(goPanic{kind: "nil-deref", msg: "value method called using nil native pointer", pos: callpos})
		}
		return recv
	}
	panic(unsupported("built-in: " + fn.Name() + " in " + callerName(caller)))
}

func termOrInt(t *Term) value {
	if t.IsConst() {
		return int(t.I)
	}
	return t
}

func bytesToStr(v value) value {
	switch x := v.(type) {
	case symBytes:
		return x.s
	case []value:
		b := make([]byte, len(x))
		for i := range x {
			b[i] = x[i].(byte)
		}
		return string(b)
	case string, *Term:
		return x
	}
	panic(unsupported(fmt.Sprintf("bytesToStr(%T)", v)))
}
