package sym

// FindStringSubmatch on a byte-vector subject: the compiled regexp/syntax program is run by a
// leftmost-first backtracking matcher (the semantics of Go's regexp for non-POSIX expressions);
// every test of a symbolic byte against a character class is a path decision, so on each path the
// match - and the capture boundaries - are concrete.

import (
	"fmt"
	"regexp"
	"regexp/syntax"
)

// asciiVector makes sure every byte of the vector is < 0x80 on this path (one byte = one code
// point, which is what the matcher assumes); a path on which a byte is not ASCII is outside the encoder.
func (r *Run) asciiVector(cps []*Term, what string) {
	for _, c := range cps {
		if c.IsConst() {
			if c.I >= 0x80 {
				panic(unsupported(what + " on a vector with a non-ASCII byte"))
			}
			continue
		}
		if !r.branch(Lt(c, IntT(0x80))) {
			panic(unsupported(what + " on a vector with a non-ASCII byte"))
		}
	}
}

func (r *Run) submatchVec(re *regexp.Regexp, s runesV) value {
	cps := s.cps
	if s.bytes {
		r.asciiVector(cps, "FindStringSubmatch")
	}
	prog := progOf(re.String())
	n := len(cps)
	ncap := 2 * (re.NumSubexp() + 1)
	emptyOK := func(op syntax.EmptyOp, pos int) bool {
		word := func(i int) bool {
			if i < 0 || i >= n {
				return false
			}
			return r.branch(isWordTerm(cps[i]))
		}
		if op&syntax.EmptyBeginText != 0 && pos != 0 {
			return false
		}
		if op&syntax.EmptyEndText != 0 && pos != n {
			return false
		}
		if op&syntax.EmptyBeginLine != 0 && pos != 0 && !r.branch(Eq(cps[pos-1], IntT('\n'))) {
			return false
		}
		if op&syntax.EmptyEndLine != 0 && pos != n && !r.branch(Eq(cps[pos], IntT('\n'))) {
			return false
		}
		if op&syntax.EmptyWordBoundary != 0 && word(pos-1) == word(pos) {
			return false
		}
		if op&syntax.EmptyNoWordBoundary != 0 && word(pos-1) != word(pos) {
			return false
		}
		return true
	}
	for start := 0; start <= n; start++ {
		visited := map[[2]int]bool{}
		var try func(pc uint32, pos int, caps []int) ([]int, bool)
		try = func(pc uint32, pos int, caps []int) ([]int, bool) {
			k := [2]int{int(pc), pos}
			if visited[k] {
				return nil, false
			}
			visited[k] = true
			inst := &prog.Inst[pc]
			switch inst.Op {
			case syntax.InstFail:
				return nil, false
			case syntax.InstAlt, syntax.InstAltMatch:
				if c, ok := try(inst.Out, pos, caps); ok {
					return c, true
				}
				return try(inst.Arg, pos, caps)
			case syntax.InstNop:
				return try(inst.Out, pos, caps)
			case syntax.InstCapture:
				if int(inst.Arg) < len(caps) {
					c2 := append([]int(nil), caps...)
					c2[inst.Arg] = pos
					return try(inst.Out, pos, c2)
				}
				return try(inst.Out, pos, caps)
			case syntax.InstEmptyWidth:
				if !emptyOK(syntax.EmptyOp(inst.Arg), pos) {
					return nil, false
				}
				return try(inst.Out, pos, caps)
			case syntax.InstMatch:
				c2 := append([]int(nil), caps...)
				c2[1] = pos
				return c2, true
			case syntax.InstRune, syntax.InstRune1, syntax.InstRuneAny, syntax.InstRuneAnyNotNL:
				if pos == n || !r.branch(runeCond(inst, cps[pos])) {
					return nil, false
				}
				return try(inst.Out, pos+1, caps)
			}
			panic(unsupported(fmt.Sprintf("regexp instruction %v", inst.Op)))
		}
		caps := make([]int, ncap)
		for i := range caps {
			caps[i] = -1
		}
		caps[0] = start
		if got, ok := try(uint32(prog.Start), start, caps); ok {
			out := make([]value, ncap/2)
			for i := range out {
				a, b := got[2*i], got[2*i+1]
				if a < 0 || b < 0 {
					out[i] = ""
					continue
				}
				out[i] = vecOrString(runesV{cps: cps[a:b], bytes: s.bytes})
			}
			return out
		}
		if prog.Inst[prog.Start].Op == syntax.InstEmptyWidth && syntax.EmptyOp(prog.Inst[prog.Start].Arg)&syntax.EmptyBeginText != 0 {
			break // anchored at the beginning of the text: no later start can match
		}
	}
	return []value(nil)
}

// vecOrString returns the Go string when every element of the vector is concrete.
func vecOrString(v runesV) value {
	for _, c := range v.cps {
		if !c.IsConst() {
			return v
		}
	}
	if v.bytes {
		b := make([]byte, len(v.cps))
		for i, c := range v.cps {
			b[i] = byte(c.I)
		}
		return string(b)
	}
	rs := make([]rune, len(v.cps))
	for i, c := range v.cps {
		rs[i] = rune(c.I)
	}
	return string(rs)
}
