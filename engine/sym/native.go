package sym

// Reflect bridge: go/types, go/ast, go/token, go/packages objects are native Go values.

import (
	"fmt"
	"go/token"
	"go/types"
	"reflect"
	"sort"
	"unsafe"

	"golang.org/x/tools/go/ssa"
)

func reflectValueOf(x interface{}) reflect.Value {
	if rv, ok := x.(reflect.Value); ok {
		return rv
	}
	return reflect.ValueOf(x)
}

func nativeIsNil(n nativeV) bool {
	if !n.rv.IsValid() {
		return true
	}
	switch n.rv.Kind() {
	case reflect.Ptr, reflect.Map, reflect.Slice, reflect.Interface, reflect.Func, reflect.Chan:
		return n.rv.IsNil()
	}
	return false
}

func nativeEq(x nativeV, y value) bool {
	switch yv := y.(type) {
	case nativeV:
		if nativeIsNil(x) || nativeIsNil(yv) {
			return nativeIsNil(x) && nativeIsNil(yv)
		}
		if x.rv.Type() != yv.rv.Type() {
			return false
		}
		switch x.rv.Kind() {
		case reflect.Ptr, reflect.Map, reflect.Slice, reflect.Func, reflect.Chan:
			return x.rv.Pointer() == yv.rv.Pointer()
		}
		if x.rv.Type().Comparable() {
			return exported(x.rv).Interface() == exported(yv.rv).Interface()
		}
		panic(unsupported("comparing native " + x.rv.Type().String()))
	case *value:
		return yv == nil && nativeIsNil(x)
	case iface:
		if yv.isNil() {
			return nativeIsNil(x)
		}
		return nativeEq(x, yv.v)
	}
	return false
}

// exported makes a value obtained through unexported fields usable with Interface()/Set.
func exported(rv reflect.Value) reflect.Value {
	if !rv.IsValid() || rv.CanInterface() {
		return rv
	}
	if rv.CanAddr() {
		return reflect.NewAt(rv.Type(), unsafe.Pointer(rv.UnsafeAddr())).Elem()
	}
	// copy through a new addressable value
	nv := reflect.New(rv.Type()).Elem()
	// cannot Set from unexported; fall back to unsafe via interface emulation is impossible -> refuse
	_ = nv
	panic(unsupported("unexported non-addressable native value of type " + rv.Type().String()))
}

// fromReflect converts a native value into an interpreter value: basic kinds are converted,
// everything else stays wrapped.
func (r *Run) fromReflect(rv reflect.Value) value {
	if !rv.IsValid() {
		return iface{}
	}
	rv = exported(rv)
	switch rv.Kind() {
	case reflect.Bool:
		return rv.Bool()
	case reflect.Int:
		return int(rv.Int())
	case reflect.Int8:
		return int8(rv.Int())
	case reflect.Int16:
		return int16(rv.Int())
	case reflect.Int32:
		return int32(rv.Int())
	case reflect.Int64:
		return rv.Int()
	case reflect.Uint:
		return uint(rv.Uint())
	case reflect.Uint8:
		return uint8(rv.Uint())
	case reflect.Uint16:
		return uint16(rv.Uint())
	case reflect.Uint32:
		return uint32(rv.Uint())
	case reflect.Uint64:
		return rv.Uint()
	case reflect.Uintptr:
		return uintptr(rv.Uint())
	case reflect.Float32:
		return float32(rv.Float())
	case reflect.Float64:
		return rv.Float()
	case reflect.String:
		return rv.String()
	case reflect.Interface:
		if rv.IsNil() {
			return iface{}
		}
		el := rv.Elem()
		if iv, ok := el.Interface().(interpBox); ok {
			return iv.v
		}
		inner := r.fromReflect(el)
		if nv, ok := inner.(nativeV); ok {
			return iface{t: nil, v: nv}
		}
		// basic value inside a native interface (e.g. constant.Value) – keep native
		return iface{t: nil, v: nativeV{el}}
	case reflect.Struct:
		// struct by value: keep as native copy (addressable copy so that fields can be read)
		cp := reflect.New(rv.Type()).Elem()
		cp.Set(rv)
		return nativeV{cp}
	}
	return nativeV{rv}
}

// movedNative is the forwarding reference left in an interpreter cell whose struct migrated to
// the native side (see toReflect).
type movedNative struct{ ptr nativeV }

// interpBox lets an interpreter value travel through native interface-typed slots.
type interpBox struct{ v value }

func (r *Run) fromReflectConv(x nativeV, tDst types.Type) value {
	if basicKind(tDst) == types.String && x.rv.Kind() == reflect.Slice && x.rv.Type().Elem().Kind() == reflect.Uint8 {
		return string(x.rv.Bytes())
	}
	panic(unsupported(fmt.Sprintf("conversion of native %s to %s", x.rv.Type(), tDst)))
}

// toReflect converts an interpreter value into a native value of type rt.
func (r *Run) toReflect(v value, rt reflect.Type) reflect.Value {
	switch x := v.(type) {
	case nativeV:
		if !x.rv.IsValid() {
			return reflect.Zero(rt)
		}
		xv := exported(x.rv)
		if xv.Type() == rt {
			return xv
		}
		if xv.Type().AssignableTo(rt) {
			out := reflect.New(rt).Elem()
			out.Set(xv)
			return out
		}
		if xv.Type().ConvertibleTo(rt) {
			return xv.Convert(rt)
		}
		panic(unsupported(fmt.Sprintf("native %s not assignable to %s", xv.Type(), rt)))
	case iface:
		if x.isNil() {
			return reflect.Zero(rt)
		}
		if nv, ok := x.v.(nativeV); ok {
			return r.toReflect(nv, rt)
		}
		if rt.Kind() == reflect.Interface && rt.NumMethod() == 0 {
			// any: basic values pass natively, everything else boxed
			switch b := x.v.(type) {
			case bool, int, int8, int16, int32, int64, uint, uint8, uint16, uint32, uint64, uintptr, float32, float64, string:
				out := reflect.New(rt).Elem()
				out.Set(reflect.ValueOf(b))
				return out
			}
			out := reflect.New(rt).Elem()
			out.Set(reflect.ValueOf(interpBox{x}))
			return out
		}
		panic(unsupported(fmt.Sprintf("interpreter interface value (%v) into native %s", x.t, rt)))
	case *value:
		if x == nil {
			return reflect.Zero(rt)
		}
		if mv, ok := (*x).(movedNative); ok {
			return r.toReflect(mv.ptr, rt)
		}
		if st, ok := (*x).(structure); ok && rt.Kind() == reflect.Ptr && rt.Elem().Kind() == reflect.Struct {
			// An object the interpreted code allocated (e.g. &ast.CommentGroup{...}) is linked into
			// a native data structure: it MIGRATES to the native side. The interpreter cell keeps a
			// forwarding reference, so later accesses through the old pointer reach the same object.
			et := rt.Elem()
			if et.NumField() != len(st) {
				panic(unsupported(fmt.Sprintf("interpreter struct of %d fields into native %s", len(st), et)))
			}
			ptr := reflect.New(et)
			for i := 0; i < et.NumField(); i++ {
				if !ptr.Elem().Field(i).CanSet() {
					panic(unsupported(fmt.Sprintf("interpreter struct into native %s with unexported field", et)))
				}
				ptr.Elem().Field(i).Set(r.toReflect(st[i], et.Field(i).Type))
			}
			*x = movedNative{nativeV{ptr}}
			return ptr
		}
		panic(unsupported(fmt.Sprintf("interpreter pointer into native %s", rt)))
	case []value:
		if rt.Kind() != reflect.Slice {
			panic(unsupported(fmt.Sprintf("interpreter slice into native %s", rt)))
		}
		if x == nil {
			return reflect.Zero(rt)
		}
		out := reflect.MakeSlice(rt, len(x), len(x))
		for i := range x {
			out.Index(i).Set(r.toReflect(x[i], rt.Elem()))
		}
		return out
	case *Term:
		if x.Sort == SBool && rt.Kind() == reflect.Bool {
			// a native judge needs a concrete flag: decided by the path condition or forked here
			return reflect.ValueOf(r.branch(x)).Convert(rt)
		}
		panic(unsupported(fmt.Sprintf("symbolic value %s into native %s", x, rt)))
	case *closure, *ssa.Function:
		if rt.Kind() == reflect.Func {
			return r.makeNativeFunc(v, rt)
		}
	case structure:
		panic(unsupported(fmt.Sprintf("interpreter struct into native %s", rt)))
	}
	rvv := reflect.ValueOf(v)
	if !rvv.IsValid() {
		return reflect.Zero(rt)
	}
	if rvv.Type() == rt {
		return rvv
	}
	if rvv.Type().ConvertibleTo(rt) && isBasicKind(rvv.Kind()) {
		return rvv.Convert(rt)
	}
	if rt.Kind() == reflect.Interface && isBasicKind(rvv.Kind()) {
		out := reflect.New(rt).Elem()
		out.Set(rvv)
		return out
	}
	panic(unsupported(fmt.Sprintf("value %T into native %s", v, rt)))
}

func isBasicKind(k reflect.Kind) bool {
	switch k {
	case reflect.Bool, reflect.Int, reflect.Int8, reflect.Int16, reflect.Int32, reflect.Int64,
		reflect.Uint, reflect.Uint8, reflect.Uint16, reflect.Uint32, reflect.Uint64, reflect.Uintptr,
		reflect.Float32, reflect.Float64, reflect.String:
		return true
	}
	return false
}

// makeNativeFunc wraps an interpreted closure as a native func (callbacks such as ast.Inspect).
func (r *Run) makeNativeFunc(fn value, rt reflect.Type) reflect.Value {
	return reflect.MakeFunc(rt, func(in []reflect.Value) []reflect.Value {
		args := make([]value, len(in))
		for i := range in {
			args[i] = r.fromReflect(in[i])
		}
		res := r.call(nil, token.NoPos, fn, args)
		out := make([]reflect.Value, rt.NumOut())
		switch rt.NumOut() {
		case 0:
		case 1:
			out[0] = r.toReflect(res, rt.Out(0))
		default:
			tp := res.(tuple)
			for i := range out {
				out[i] = r.toReflect(tp[i], rt.Out(i))
			}
		}
		return out
	})
}

func (r *Run) nativeFieldAddr(fr *frame, instr poser, p nativeV, field string) value {
	if nativeIsNil(p) {
		fr.panicAt(instr, "nil-deref", "field access through nil pointer (native)")
	}
	rv := p.rv
	if rv.Kind() == reflect.Ptr {
		rv = rv.Elem()
	}
	f := rv.FieldByName(field)
	if !f.IsValid() {
		panic(unsupported("native struct " + rv.Type().String() + " has no field " + field))
	}
	if !f.CanAddr() {
		panic(unsupported("native field not addressable"))
	}
	return nativeV{exported(f).Addr()}
}

func (r *Run) nativeStore(fr *frame, instr poser, addr nativeV, v value) {
	if nativeIsNil(addr) {
		fr.panicAt(instr, "nil-deref", "store through nil pointer (native)")
	}
	dst := addr.rv.Elem()
	dst.Set(r.toReflect(v, dst.Type()))
}

func (r *Run) nativeMapLookup(fr *frame, instr *ssa.Lookup, m nativeV, idx value) value {
	elemT := m.rv.Type().Elem()
	var v value
	ok := false
	if !nativeIsNil(m) {
		if t, isT := idx.(*Term); isT {
			// symbolic key against a concrete native map: fork over the keys
			keys := m.rv.MapKeys()
			sort.Slice(keys, func(i, j int) bool { return fmt.Sprint(keys[i]) < fmt.Sprint(keys[j]) })
			for _, k := range keys {
				if r.branch(simplifyBool(Eq(t, asTerm(r.fromReflect(k))))) {
					v = r.fromReflect(m.rv.MapIndex(k))
					ok = true
					break
				}
			}
		} else {
			k := r.toReflect(idx, m.rv.Type().Key())
			e := m.rv.MapIndex(k)
			if e.IsValid() {
				v = r.fromReflect(e)
				ok = true
			}
		}
	}
	if !ok {
		v = r.fromReflect(reflect.Zero(elemT))
	}
	if instr.CommaOk {
		return tuple{v, ok}
	}
	return v
}

type nativeSliceIter struct {
	rv  reflect.Value
	pos int
}

type nativeMapIter struct {
	keys []reflect.Value
	m    reflect.Value
	pos  int
}

func (it *nativeMapIter) next(r *Run) tuple {
	if it.pos >= len(it.keys) {
		return tuple{false, nil, nil}
	}
	k := it.keys[it.pos]
	it.pos++
	return tuple{true, r.fromReflect(k), r.fromReflect(it.m.MapIndex(k))}
}

func (r *Run) nativeRange(x nativeV) iter {
	if x.rv.Kind() == reflect.Map {
		keys := x.rv.MapKeys()
		sort.Slice(keys, func(i, j int) bool { return fmt.Sprint(keys[i]) < fmt.Sprint(keys[j]) })
		if r.ExploreMapOrder && len(keys) > 1 && r.permuteHere() {
			perm := make([]reflect.Value, 0, len(keys))
			rest := append([]reflect.Value(nil), keys...)
			for len(rest) > 1 {
				k := r.choose(len(rest))
				perm = append(perm, rest[k])
				rest = append(rest[:k:k], rest[k+1:]...)
			}
			keys = append(perm, rest[0])
		}
		return &nativeMapIter{keys: keys, m: x.rv}
	}
	panic(unsupported("range over native " + x.rv.Type().String()))
}

// nativeAssert reports whether the native dynamic value has (or implements) asserted type t.
func nativeAssert(n nativeV, t types.Type) bool {
	rt := n.rv.Type()
	if it, ok := t.Underlying().(*types.Interface); ok {
		// implements: all method names present
		for i := 0; i < it.NumMethods(); i++ {
			if _, ok := rt.MethodByName(it.Method(i).Name()); !ok {
				if it.Method(i).Exported() {
					return false
				}
				// unexported interface methods (ast.Expr.exprNode): decide by naming convention
				if !hasUnexportedMarker(rt, it.Method(i).Name()) {
					return false
				}
			}
		}
		return true
	}
	return reflectTypeMatches(rt, t)
}

func hasUnexportedMarker(rt reflect.Type, name string) bool {
	// reflect does not list unexported methods; fall back to a conservative table
	return unexportedMarkers[rt.String()+"."+name]
}

var unexportedMarkers = map[string]bool{}

func reflectTypeMatches(rt reflect.Type, t types.Type) bool {
	switch tt := t.(type) {
	case *types.Pointer:
		return rt.Kind() == reflect.Ptr && reflectTypeMatches(rt.Elem(), tt.Elem())
	case *types.Named:
		if rt.Name() != tt.Obj().Name() {
			return false
		}
		p := ""
		if tt.Obj().Pkg() != nil {
			p = tt.Obj().Pkg().Path()
		}
		return rt.PkgPath() == p || stripVendor(rt.PkgPath()) == p
	case *types.Alias:
		return reflectTypeMatches(rt, types.Unalias(tt))
	case *types.Basic:
		return rt.Kind().String() == tt.Name() && rt.PkgPath() == ""
	case *types.Slice:
		return rt.Kind() == reflect.Slice && reflectTypeMatches(rt.Elem(), tt.Elem())
	}
	return false
}

func stripVendor(p string) string { return p }

// ---------------------------------------------------------------- native calls

func (r *Run) callNativeMethod(caller *frame, callpos token.Pos, recv nativeV, name string, args []value) value {
	if nativeIsNil(recv) && recv.rv.Kind() != reflect.Ptr {
		panic(goPanic{kind: "nil-deref", msg: "method " + name + " on nil native", pos: callpos})
	}
	rv := exported(recv.rv)
	m := rv.MethodByName(name)
	if !m.IsValid() && rv.CanAddr() {
		m = rv.Addr().MethodByName(name)
	}
	if !m.IsValid() {
		panic(unsupported(fmt.Sprintf("native method %s.%s not found", rv.Type(), name)))
	}
	r.stubsHit["native:"+rv.Type().String()+"."+name] = true
	return r.callReflect(callpos, m, args, rv.Type().String()+"."+name)
}

func (r *Run) callReflect(callpos token.Pos, f reflect.Value, args []value, what string) (res value) {
	ft := f.Type()
	in := make([]reflect.Value, 0, len(args))
	for i, a := range args {
		var pt reflect.Type
		if ft.IsVariadic() && i >= ft.NumIn()-1 {
			// variadic tail arrives as one slice argument in SSA
			if i == ft.NumIn()-1 {
				sl := r.toReflect(a, ft.In(i))
				for j := 0; j < sl.Len(); j++ {
					in = append(in, sl.Index(j))
				}
				continue
			}
		}
		pt = ft.In(i)
		in = append(in, r.toReflect(a, pt))
	}
	var out []reflect.Value
	func() {
		defer func() {
			if p := recover(); p != nil {
				switch p.(type) {
				case goPanic, abortPath, unsupportedErr, unwindExceeded, exitPath:
					panic(p)
				}
				// a panic inside native library code with concrete arguments is the program's panic
				panic(goPanic{kind: "native-panic", msg: fmt.Sprintf("%v in %s", p, what), pos: callpos})
			}
		}()
		out = f.Call(in)
	}()
	switch len(out) {
	case 0:
		return nil
	case 1:
		return r.fromReflect(out[0])
	}
	tp := make(tuple, len(out))
	for i := range out {
		tp[i] = r.fromReflect(out[i])
	}
	return tp
}

// callNativeFunc calls a package-level native function / method by SSA identity if registered
// or if its receiver is native.
func (r *Run) callNativeFunc(fr *frame, fn *ssa.Function, args []value) (value, bool) {
	name := fn.String()
	if nf, ok := r.E.Natives[name]; ok {
		r.stubsHit["native:"+name] = true
		return r.callReflect(fr.callpos, reflectValueOf(nf), args, name), true
	}
	// method with native receiver (static call to a concrete method, e.g. (*types.Named).Obj)
	if fn.Signature.Recv() != nil && len(args) > 0 {
		if nv, ok := args[0].(nativeV); ok {
			return r.callNativeMethod(fr.caller, fr.callpos, nv, fn.Name(), args[1:]), true
		}
		if ao, ok := args[0].(*absObj); ok {
			return r.callAbsMethod(fr.caller, fr.callpos, ao, fn.Name(), args[1:]), true
		}
		if iv, ok := args[0].(iface); ok {
			if nv, ok := iv.v.(nativeV); ok {
				return r.callNativeMethod(fr.caller, fr.callpos, nv, fn.Name(), args[1:]), true
			}
		}
	}
	return nil, false
}

func (r *Run) callNativeFuncValue(caller *frame, callpos token.Pos, fn nativeV, args []value) value {
	if fn.rv.Kind() != reflect.Func {
		panic(unsupported("call of native non-func"))
	}
	return r.callReflect(callpos, fn.rv, args, "native func value")
}
