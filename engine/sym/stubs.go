package sym

// Stub catalogue: exact-semantics string stubs, environment stubs, and the vrt runtime.

import (
	"errors"
	"fmt"
	"go/token"
	"go/types"
	"path"
	"reflect"
	"regexp"
	"strconv"
	"strings"
	"unicode"
	"unicode/utf8"

	"golang.org/x/tools/go/ssa"
)

func anySym(args []value) bool {
	for _, a := range args {
		switch x := a.(type) {
		case *Term, runesV, symBytes:
			return true
		case []value:
			if anySym(x) {
				return true
			}
		case iface:
			if anySym([]value{x.v}) {
				return true
			}
		}
	}
	return false
}

// pure builds a stub that calls native when all arguments are concrete and sym otherwise.
func pure(native interface{}, sym func(r *Run, args []value) value) StubFn {
	nf := reflect.ValueOf(native)
	return func(r *Run, fr *frame, fn *ssa.Function, args []value) value {
		if !anySym(args) {
			return r.callReflect(fr.callpos, nf, args, fn.String())
		}
		if sym == nil {
			panic(unsupported("symbolic argument to " + fn.String()))
		}
		return sym(r, args)
	}
}

func strArg(v value) *Term {
	if _, ok := v.(runesV); ok {
		// never fall back to the SMT string theory for vector strings (performance trap)
		panic(unsupported("SMT-string stub applied to a vector string"))
	}
	return asTerm(v)
}

const errTypeName = "error"

func (r *Run) newError(msg value) value {
	o := &absObj{class: "error", id: r.fresh["err"], attrs: map[string]value{"msg": msg}}
	r.fresh["err"]++
	o.meth = map[string]func(*Run, *absObj, []value) value{
		"Error": func(r *Run, self *absObj, _ []value) value { return self.attrs["msg"] },
	}
	return iface{t: nil, v: o}
}

// builderSlot returns the slot that holds a strings.Builder / bytes.Buffer content.
func builderSlot(p value, idx int) *value {
	pv := p.(*value)
	st, ok := (*pv).(structure)
	if !ok {
		panic(unsupported("builder receiver is not a struct"))
	}
	return &st[idx]
}

func slotStr(s *value) value {
	switch x := (*s).(type) {
	case string, *Term:
		return x
	case runesV:
		return x
	}
	return ""
}

func concatV(a, b value) value {
	_, ar := a.(runesV)
	_, br := b.(runesV)
	if ar || br {
		return runesConcat(a, b)
	}
	as, aok := a.(string)
	bs, bok := b.(string)
	if aok && bok {
		return as + bs
	}
	return termOrString(Concat(asTerm(a), asTerm(b)))
}

// sprintf implements fmt.Sprintf for constant formats over strings/ints (symbolic or not).
func (r *Run) sprintf(format string, args []value) value {
	var out value = ""
	ai := 0
	i := 0
	for i < len(format) {
		j := strings.IndexByte(format[i:], '%')
		if j < 0 {
			out = concatV(out, format[i:])
			break
		}
		out = concatV(out, format[i:i+j])
		i += j
		// parse verb
		k := i + 1
		for k < len(format) && strings.ContainsRune("+-# 0123456789.", rune(format[k])) {
			k++
		}
		if k >= len(format) {
			out = concatV(out, format[i:])
			break
		}
		verb := format[i : k+1]
		i = k + 1
		if verb == "%%" {
			out = concatV(out, "%")
			continue
		}
		if ai >= len(args) {
			out = concatV(out, "%!"+verb[len(verb)-1:]+"(MISSING)")
			continue
		}
		a := args[ai]
		ai++
		out = concatV(out, r.formatOne(verb, a))
	}
	return out
}

func (r *Run) formatOne(verb string, a value) value {
	if iv, ok := a.(iface); ok {
		if iv.isNil() {
			return fmt.Sprintf(verb, nil)
		}
		if ao, ok := iv.v.(*absObj); ok && ao.class == "error" {
			return ao.attrs["msg"]
		}
		if nv, ok := iv.v.(nativeV); ok {
			return fmt.Sprintf(verb, exported(nv.rv).Interface())
		}
		if iv.t != nil && verb == "%T" {
			return types.TypeString(iv.t, nil)
		}
		a = iv.v
		// Stringer on interpreter values
		if iv.t != nil && (verb == "%v" || verb == "%s") {
			if sel := r.E.Prog.MethodSets.MethodSet(iv.t).Lookup(nil, "String"); sel != nil {
				if m := r.E.Prog.MethodValue(sel); m != nil {
					return r.call(nil, 0, m, []value{iv.v})
				}
			}
		}
	}
	switch x := a.(type) {
	case *Term:
		c := verb[len(verb)-1]
		if x.Sort == SStr && (c == 'v' || c == 's') && len(verb) == 2 {
			return x
		}
		if x.Sort == SInt && (c == 'v' || c == 'd') && len(verb) == 2 {
			return termOrString(Ite(Lt(x, IntT(0)), Concat(StrT("-"), FromInt(Neg(x))), FromInt(x)))
		}
		if x.Sort == SBool && (c == 'v' || c == 't') {
			return termOrString(Ite(x, StrT("true"), StrT("false")))
		}
		panic(unsupported("Sprintf verb " + verb + " on symbolic value"))
	case runesV:
		return x
	case nativeV:
		if !x.rv.IsValid() {
			return fmt.Sprintf(verb, nil)
		}
		return fmt.Sprintf(verb, exported(x.rv).Interface())
	case bool, int, int8, int16, int32, int64, uint, uint8, uint16, uint32, uint64, uintptr, float32, float64, string:
		return fmt.Sprintf(verb, x)
	case *value:
		return "<ptr>"
	}
	return toString(a)
}

func variadic(v value) []value {
	if v == nil {
		return nil
	}
	switch x := v.(type) {
	case []value:
		return x
	}
	panic(fmt.Sprintf("variadic: %T", v))
}

// splitSym: bounded structural split of a symbolic string on a constant separator.
func (r *Run) splitSym(s *Term, sep string, maxSeg int, what string) value {
	// fork on the number of segments 1..maxSeg (more = outside the bound)
	n := 1
	for n <= maxSeg {
		// does s contain another separator beyond the (n-1) already split? decided on the remaining tail
		break
	}
	_ = n
	var segs []*Term
	rest := s
	for k := 0; k < maxSeg; k++ {
		hasSep := simplifyBool(Contains(rest, StrT(sep)))
		if !r.branch(hasSep) {
			segs = append(segs, rest)
			out := make([]value, len(segs))
			for i, sg := range segs {
				out[i] = termOrString(sg)
			}
			return out
		}
		// split at first occurrence
		idx := IndexOf(rest, StrT(sep), IntT(0))
		head := Substr(rest, IntT(0), idx)
		tail := Substr(rest, Add(idx, IntT(int64(len(sep)))), StrLen(rest))
		// introduce fresh names for readability/perf
		hv := r.newInput(r.freshName(what+".seg"), SStr)
		tv := r.newInput(r.freshName(what+".rest"), SStr)
		r.assume(Eq(hv, head))
		r.assume(Eq(tv, tail))
		r.assume(Eq(rest, Concat(hv, StrT(sep), tv)))
		r.assume(Not(Contains(hv, StrT(sep))))
		segs = append(segs, hv)
		rest = tv
	}
	panic(unwindExceeded{"split segment bound (" + what + ")"})
}

func BaseStubs() map[string]StubFn {
	st := map[string]StubFn{}

	// ---- strings.Builder / bytes.Buffer
	st["(*strings.Builder).WriteString"] = func(r *Run, fr *frame, fn *ssa.Function, a []value) value {
		s := builderSlot(a[0], 1)
		*s = concatV(slotStr(s), a[1])
		return tuple{lenV(a[1]), iface{}}
	}
	st["(*strings.Builder).String"] = func(r *Run, fr *frame, fn *ssa.Function, a []value) value {
		return slotStr(builderSlot(a[0], 1))
	}
	st["(*strings.Builder).Len"] = func(r *Run, fr *frame, fn *ssa.Function, a []value) value {
		return lenV(slotStr(builderSlot(a[0], 1)))
	}
	st["(*bytes.Buffer).WriteString"] = func(r *Run, fr *frame, fn *ssa.Function, a []value) value {
		s := builderSlot(a[0], 0)
		*s = concatV(slotStr(s), a[1])
		return tuple{lenV(a[1]), iface{}}
	}
	st["(*bytes.Buffer).Write"] = func(r *Run, fr *frame, fn *ssa.Function, a []value) value {
		s := builderSlot(a[0], 0)
		*s = concatV(slotStr(s), bytesToStr(a[1]))
		return tuple{lenV(bytesToStr(a[1])), iface{}}
	}
	st["(*bytes.Buffer).String"] = func(r *Run, fr *frame, fn *ssa.Function, a []value) value {
		return slotStr(builderSlot(a[0], 0))
	}
	st["(*bytes.Buffer).Bytes"] = func(r *Run, fr *frame, fn *ssa.Function, a []value) value {
		return symBytes{slotStr(builderSlot(a[0], 0))}
	}

	// ---- strings
	st["strings.HasPrefix"] = pure(strings.HasPrefix, func(r *Run, a []value) value {
		if isVec(a...) {
			m := vecMode(a[0], a[1])
			return r.vecHasPrefix(vecOf(a[0], m), vecOf(a[1], m))
		}
		return simplifyBool(PrefixOf(strArg(a[1]), strArg(a[0])))
	})
	st["strings.HasSuffix"] = pure(strings.HasSuffix, func(r *Run, a []value) value {
		if isVec(a...) {
			m := vecMode(a[0], a[1])
			return r.vecHasSuffix(vecOf(a[0], m), vecOf(a[1], m))
		}
		return simplifyBool(SuffixOf(strArg(a[1]), strArg(a[0])))
	})
	st["strings.Contains"] = pure(strings.Contains, func(r *Run, a []value) value {
		if isVec(a...) {
			m := vecMode(a[0], a[1])
			return r.vecContains(vecOf(a[0], m), vecOf(a[1], m))
		}
		return simplifyBool(Contains(strArg(a[0]), strArg(a[1])))
	})
	st["strings.Index"] = pure(strings.Index, func(r *Run, a []value) value {
		if isVec(a...) {
			m := vecMode(a[0], a[1])
			if !m {
				panic(unsupported("strings.Index on rune vector"))
			}
			return r.vecIndex(vecOf(a[0], m), vecOf(a[1], m), false)
		}
		return termOrInt(IndexOf(strArg(a[0]), strArg(a[1]), IntT(0)))
	})
	st["strings.LastIndex"] = pure(strings.LastIndex, func(r *Run, a []value) value {
		if isVec(a...) {
			m := vecMode(a[0], a[1])
			if !m {
				panic(unsupported("strings.LastIndex on rune vector"))
			}
			return r.vecIndex(vecOf(a[0], m), vecOf(a[1], m), true)
		}
		// last index of a constant separator: s = pre ++ sep ++ post, post free of sep; or -1
		s, sep := strArg(a[0]), strArg(a[1])
		if !sep.IsConst() {
			panic(unsupported("LastIndex with symbolic separator"))
		}
		if !r.branch(simplifyBool(Contains(s, sep))) {
			return -1
		}
		pre := r.newInput(r.freshName("lastindex.pre"), SStr)
		post := r.newInput(r.freshName("lastindex.post"), SStr)
		r.assume(Eq(s, Concat(pre, sep, post)))
		r.assume(Not(Contains(post, sep)))
		if len(sep.S) > 1 {
			panic(unsupported("LastIndex with multi-byte separator"))
		}
		return termOrInt(StrLen(pre))
	})
	st["strings.Replace"] = pure(strings.Replace, func(r *Run, a []value) value {
		if isVec(a[0], a[1]) {
			n := r.concreteInt(a[3], "Replace n")
			if n != 1 {
				panic(unsupported("strings.Replace with n != 1 on vector strings"))
			}
			m := vecMode(a[0], a[1])
			sv, ov := vecOf(a[0], m), vecOf(a[1], m)
			if len(ov.cps) == 0 {
				return concatV(a[2], a[0])
			}
			i := r.vecIndex(sv, ov, false)
			if i < 0 {
				return a[0]
			}
			return concatV(concatV(runesV{sv.cps[:i], m}.norm(), a[2]), runesV{sv.cps[i+len(ov.cps):], m}.norm())
		}
		n := r.concreteInt(a[3], "Replace n")
		if n != 1 {
			panic(unsupported("strings.Replace with n != 1 on symbolic strings"))
		}
		old := strArg(a[1])
		// Go: empty old matches at the beginning; SMT str.replace agrees (inserts at front)
		return termOrString(Replace(strArg(a[0]), old, strArg(a[2])))
	})
	st["strings.ReplaceAll"] = pure(strings.ReplaceAll, func(r *Run, a []value) value {
		// vector strings: removal/replacement of a single byte
		v, ok := a[0].(runesV)
		old, ok2 := a[1].(string)
		if !ok || !ok2 || len(old) != 1 {
			panic(unsupported("ReplaceAll on symbolic strings (only vector string / single-byte old)"))
		}
		var out value = ""
		for _, c := range v.cps {
			if r.branch(simplifyBool(Eq(c, IntT(int64(old[0]))))) {
				out = concatV(out, a[2])
			} else {
				out = concatV(out, runesV{[]*Term{c}, v.bytes}.norm())
			}
		}
		if rv, ok := out.(runesV); ok {
			return rv.norm()
		}
		return out
	})
	st["strings.Split"] = pure(strings.Split, func(r *Run, a []value) value {
		if isVec(a[0]) {
			sp, ok := a[1].(string)
			if !ok || len(sp) != 1 {
				panic(unsupported("Split of vector string on non-single-byte separator"))
			}
			v := a[0].(runesV)
			var out []value
			start := 0
			for i, c := range v.cps {
				if r.branch(simplifyBool(Eq(c, IntT(int64(sp[0]))))) {
					out = append(out, runesV{v.cps[start:i], v.bytes}.norm())
					start = i + 1
				}
			}
			out = append(out, runesV{v.cps[start:], v.bytes}.norm())
			return out
		}
		sep := strArg(a[1])
		if !sep.IsConst() || sep.S == "" {
			panic(unsupported("Split with symbolic/empty separator"))
		}
		return r.splitSym(strArg(a[0]), sep.S, 4, "split")
	})
	st["strings.Fields"] = pure(strings.Fields, func(r *Run, a []value) value {
		v, ok := a[0].(runesV)
		if !ok || !v.bytes {
			panic(unsupported("symbolic argument to strings.Fields"))
		}
		// byte vector, ASCII: every byte is classified (white space or not) by a path decision
		r.asciiVector(v.cps, "strings.Fields")
		out := []value{}
		start := -1
		for i, c := range v.cps {
			space := r.branch(Or(And(Le(IntT('\t'), c), Le(c, IntT('\r'))), Eq(c, IntT(' '))))
			if space {
				if start >= 0 {
					out = append(out, vecOrString(runesV{cps: v.cps[start:i], bytes: true}))
					start = -1
				}
			} else if start < 0 {
				start = i
			}
		}
		if start >= 0 {
			out = append(out, vecOrString(runesV{cps: v.cps[start:], bytes: true}))
		}
		return out
	})
	st["strings.ToLower"] = pure(strings.ToLower, func(r *Run, a []value) value { return r.runesMap(a[0], "lower") })
	st["strings.ToUpper"] = pure(strings.ToUpper, func(r *Run, a []value) value { return r.runesMap(a[0], "upper") })
	st["strings.EqualFold"] = pure(strings.EqualFold, func(r *Run, a []value) value { return r.runesEqualFold(a[0], a[1]) })
	st["strings.TrimSpace"] = pure(strings.TrimSpace, nil)
	st["strings.Join"] = pure(strings.Join, func(r *Run, a []value) value {
		var out value = ""
		for i, e := range a[0].([]value) {
			if i > 0 {
				out = concatV(out, a[1])
			}
			out = concatV(out, e)
		}
		return out
	})
	st["strings.Repeat"] = pure(strings.Repeat, nil)
	st["strconv.ParseInt"] = func(r *Run, fr *frame, fn *ssa.Function, a []value) value {
		if anySym(a) {
			panic(unsupported("strconv.ParseInt on symbolic string"))
		}
		v, err := strconv.ParseInt(a[0].(string), int(asInt64(a[1])), int(asInt64(a[2])))
		if err != nil {
			return tuple{int64(0), r.newError(err.Error())}
		}
		return tuple{v, iface{}}
	}
	// strconv.Unquote of a byte vector "…" or `…` whose body needs no unescaping (every symbolic
	// byte is constrained - by a path decision - to be neither a backslash, a quote, nor a control byte)
	st["strconv.Unquote"] = func(r *Run, fr *frame, fn *ssa.Function, a []value) value {
		if s, ok := a[0].(string); ok {
			out, err := strconv.Unquote(s)
			if err != nil {
				return tuple{"", r.newError(err.Error())}
			}
			return tuple{out, iface{}}
		}
		v, ok := a[0].(runesV)
		if !ok || !v.bytes || len(v.cps) < 2 || !v.cps[0].IsConst() || !v.cps[len(v.cps)-1].IsConst() || v.cps[0].I != v.cps[len(v.cps)-1].I {
			panic(unsupported("strconv.Unquote on a symbolic string of unknown shape"))
		}
		q := v.cps[0].I
		if q != '"' && q != '`' {
			panic(unsupported("strconv.Unquote on a symbolic string of unknown shape"))
		}
		body := v.cps[1 : len(v.cps)-1]
		for _, c := range body {
			plain := And(Le(IntT(' '), c), Lt(c, IntT(0x7f)), Not(Eq(c, IntT('\\'))), Not(Eq(c, IntT(q))))
			if c.IsConst() {
				if c.I < ' ' || c.I >= 0x7f || c.I == '\\' || c.I == q {
					panic(unsupported("strconv.Unquote: escape sequences in a vector string"))
				}
				continue
			}
			if !r.branch(plain) {
				panic(unsupported("strconv.Unquote: escape sequences in a vector string"))
			}
		}
		return tuple{vecOrString(runesV{cps: body, bytes: true}), iface{}}
	}
	st["strconv.Itoa"] = pure(strconv.Itoa, func(r *Run, a []value) value { return r.formatOne("%d", a[0]) })
	// unicode classes of a symbolic code point: decided for ASCII (the path is split on c < 0x80;
	// a non-ASCII symbolic code point is outside the encoder here - C19's alphabet tables are
	// separate machinery)
	asciiClass := func(name string, cond func(c *Term) *Term) func(r *Run, a []value) value {
		return func(r *Run, a []value) value {
			c, ok := a[0].(*Term)
			if !ok {
				panic(unsupported("symbolic argument to " + name))
			}
			if !r.branch(And(Le(IntT(0), c), Lt(c, IntT(0x80)))) {
				panic(unsupported(name + " of a non-ASCII symbolic code point"))
			}
			return simplifyBool(cond(c))
		}
	}
	// token.IsKeyword on a byte vector: equality with one of the keywords
	st["go/token.IsKeyword"] = func(r *Run, fr *frame, fn *ssa.Function, a []value) value {
		v, ok := a[0].(runesV)
		if !ok {
			if s, isStr := a[0].(string); isStr {
				return token.IsKeyword(s)
			}
			panic(unsupported("symbolic argument to go/token.IsKeyword"))
		}
		var alts []*Term
		for t := token.BREAK; t <= token.VAR; t++ {
			alts = append(alts, runesEq(v, vecOf(t.String(), v.bytes)))
		}
		return simplifyBool(Or(alts...))
	}
	st["unicode.IsLetter"] = pure(unicode.IsLetter, asciiClass("unicode.IsLetter", func(c *Term) *Term {
		return Or(And(Le(IntT('A'), c), Le(c, IntT('Z'))), And(Le(IntT('a'), c), Le(c, IntT('z'))))
	}))
	st["unicode.IsDigit"] = pure(unicode.IsDigit, asciiClass("unicode.IsDigit", func(c *Term) *Term {
		return And(Le(IntT('0'), c), Le(c, IntT('9')))
	}))
	st["unicode.IsSpace"] = pure(unicode.IsSpace, asciiClass("unicode.IsSpace", func(c *Term) *Term {
		return Or(And(Le(IntT('\t'), c), Le(c, IntT('\r'))), Eq(c, IntT(' ')))
	}))
	st["path.Base"] = pure(path.Base, nil)
	st["path.Dir"] = pure(path.Dir, nil)

	st["internal/bytealg.CountString"] = func(r *Run, fr *frame, fn *ssa.Function, a []value) value {
		if anySym(a) {
			panic(unsupported("internal/bytealg.CountString on symbolic string"))
		}
		return strings.Count(a[0].(string), string([]byte{a[1].(byte)}))
	}
	st["internal/bytealg.IndexByteString"] = func(r *Run, fr *frame, fn *ssa.Function, a []value) value {
		if !anySym(a) {
			return strings.IndexByte(a[0].(string), a[1].(byte))
		}
		if isVec(a[0]) {
			c, ok := a[1].(uint8)
			if !ok {
				panic(unsupported("IndexByteString with symbolic byte"))
			}
			return r.vecIndex(vecOf(a[0], true), vecOf(string([]byte{c}), true), false)
		}
		panic(unsupported("IndexByteString on symbolic string"))
	}
	st["internal/bytealg.LastIndexByteString"] = func(r *Run, fr *frame, fn *ssa.Function, a []value) value {
		if !anySym(a) {
			return strings.LastIndexByte(a[0].(string), a[1].(byte))
		}
		if isVec(a[0]) {
			c, ok := a[1].(uint8)
			if !ok {
				panic(unsupported("LastIndexByteString with symbolic byte"))
			}
			return r.vecIndex(vecOf(a[0], true), vecOf(string([]byte{c}), true), true)
		}
		panic(unsupported("LastIndexByteString on symbolic string"))
	}
	st["internal/stringslite.Index"] = st["strings.Index"]
	st["internal/stringslite.HasPrefix"] = st["strings.HasPrefix"]
	st["internal/stringslite.HasSuffix"] = st["strings.HasSuffix"]
	st["internal/stringslite.IndexByte"] = func(r *Run, fr *frame, fn *ssa.Function, a []value) value {
		return r.E.Stubs["internal/bytealg.IndexByteString"](r, fr, fn, a)
	}

	// ---- fmt / errors
	st["fmt.Sprintf"] = func(r *Run, fr *frame, fn *ssa.Function, a []value) value {
		f, ok := a[0].(string)
		if !ok {
			panic(unsupported("Sprintf with symbolic format"))
		}
		return r.sprintf(f, variadic(a[1]))
	}
	st["fmt.Sprint"] = func(r *Run, fr *frame, fn *ssa.Function, a []value) value {
		var out value = ""
		for _, x := range variadic(a[0]) {
			out = concatV(out, r.formatOne("%v", x))
		}
		return out
	}
	st["fmt.Errorf"] = func(r *Run, fr *frame, fn *ssa.Function, a []value) value {
		f, ok := a[0].(string)
		if !ok {
			panic(unsupported("Errorf with symbolic format"))
		}
		return r.newError(r.sprintf(strings.ReplaceAll(f, "%w", "%v"), variadic(a[1])))
	}
	st["errors.New"] = func(r *Run, fr *frame, fn *ssa.Function, a []value) value { return r.newError(a[0]) }
	printer := func(stream string, first int, nl bool) StubFn {
		return func(r *Run, fr *frame, fn *ssa.Function, a []value) value {
			var out value = ""
			for i, x := range variadic(a[first]) {
				if i > 0 && nl {
					out = concatV(out, " ")
				}
				out = concatV(out, r.formatOne("%v", x))
			}
			if nl {
				out = concatV(out, "\n")
			}
			s := stream
			if first == 1 {
				if writeToBuilder(a[0], out) {
					return tuple{lenV(out), iface{}}
				}
				s = streamName(a[0])
			}
			r.Effects = append(r.Effects, Effect{Op: "print:" + s, Args: []value{out}})
			if s == "stderr" {
				r.Stderr = append(r.Stderr, out)
			}
			if s == "stdout" && r.Env["stdout.faulty"] == true {
				// standard output may reject the write (a closed pipe, a full device)
				if err := r.nondetErr("stdout.err"); !err.(iface).isNil() {
					return tuple{0, err}
				}
			}
			return tuple{lenV(out), iface{}}
		}
	}
	st["fmt.Println"] = printer("stdout", 0, true)
	st["fmt.Print"] = printer("stdout", 0, false)
	st["fmt.Fprintln"] = printer("", 1, true)
	st["fmt.Fprint"] = printer("", 1, false)
	st["fmt.Printf"] = func(r *Run, fr *frame, fn *ssa.Function, a []value) value {
		out := r.sprintf(a[0].(string), variadic(a[1]))
		r.Effects = append(r.Effects, Effect{Op: "print:stdout", Args: []value{out}})
		return tuple{lenV(out), iface{}}
	}
	st["fmt.Fprintf"] = func(r *Run, fr *frame, fn *ssa.Function, a []value) value {
		out := r.sprintf(a[1].(string), variadic(a[2]))
		if writeToBuilder(a[0], out) {
			return tuple{lenV(out), iface{}}
		}
		r.Effects = append(r.Effects, Effect{Op: "print:" + streamName(a[0]), Args: []value{out}})
		return tuple{lenV(out), iface{}}
	}

	// ---- regexp (concrete expressions compile natively)
	st["regexp.MustCompile"] = func(r *Run, fr *frame, fn *ssa.Function, a []value) value {
		s, ok := a[0].(string)
		if !ok {
			panic(unsupported("regexp.MustCompile of symbolic expression"))
		}
		re, err := regexp.Compile(s)
		if err != nil {
			fr.panicAt(fr.callInstr(), "explicit-panic", "regexp: Compile("+s+"): "+err.Error())
		}
		return nativeV{reflect.ValueOf(re)}
	}
	st["regexp.Compile"] = func(r *Run, fr *frame, fn *ssa.Function, a []value) value {
		s, ok := a[0].(string)
		if !ok {
			return r.compileSymRegexp(a[0])
		}
		re, err := regexp.Compile(s)
		if err != nil {
			return tuple{nativeV{reflect.ValueOf((*regexp.Regexp)(nil))}, r.newError(err.Error())}
		}
		return tuple{nativeV{reflect.ValueOf(re)}, iface{}}
	}
	st["regexp.QuoteMeta"] = pure(regexp.QuoteMeta, func(r *Run, a []value) value {
		return r.quoteMetaSym(a[0])
	})
	st["(*regexp.Regexp).MatchString"] = func(r *Run, fr *frame, fn *ssa.Function, a []value) value {
		return r.regexpMatch(fr, a[0], a[1])
	}
	st["(*regexp.Regexp).FindStringSubmatch"] = func(r *Run, fr *frame, fn *ssa.Function, a []value) value {
		return r.regexpFindSubmatch(fr, a[0], a[1])
	}
	st["(*regexp.Regexp).ReplaceAllString"] = func(r *Run, fr *frame, fn *ssa.Function, a []value) value {
		re := a[0].(nativeV)
		if !anySym(a[1:]) {
			return re.rv.Interface().(*regexp.Regexp).ReplaceAllString(a[1].(string), a[2].(string))
		}
		// the only symbolic use: reFromParen `\(.*` with replacement "" = cut at the first "("
		rx := re.rv.Interface().(*regexp.Regexp)
		if rx.String() == `\(.*` {
			if rep, ok := a[2].(string); ok && rep == "" {
				s := strArg(a[1])
				if !r.branch(simplifyBool(Contains(s, StrT("(")))) {
					return termOrString(s)
				}
				// `.` does not match newline: assume newline-free (notation arguments are blank-free)
				r.assume(Not(Contains(s, StrT("\n"))))
				return termOrString(Substr(s, IntT(0), IndexOf(s, StrT("("), IntT(0))))
			}
		}
		panic(unsupported("ReplaceAllString on symbolic subject for " + rx.String()))
	}

	// ---- logging of convergen (diagnostic trace)
	lg := "github.com/reedom/convergen/pkg/logger."
	// With SetEnv("logger", "real") the logger package is NOT summarised: its own code runs on the
	// log.Logger model below (harness C05Logger); otherwise the summaries apply.
	realLogger := func(f StubFn) StubFn {
		return func(r *Run, fr *frame, fn *ssa.Function, a []value) value {
			if r.Env["logger"] == "real" {
				return passThrough{}
			}
			return f(r, fr, fn, a)
		}
	}
	st[lg+"Printf"] = realLogger(func(r *Run, fr *frame, fn *ssa.Function, a []value) value { return nil })
	st[lg+"Warnf"] = realLogger(func(r *Run, fr *frame, fn *ssa.Function, a []value) value {
		r.Diags = append(r.Diags, r.mkDiag("warn", a[0], variadic(a[1])))
		r.Stderr = append(r.Stderr, concatV(r.renderMsg(a[0], variadic(a[1])), "\n"))
		return nil
	})
	st[lg+"Errorf"] = realLogger(func(r *Run, fr *frame, fn *ssa.Function, a []value) value {
		d := r.mkDiag("error", a[0], variadic(a[1]))
		r.Diags = append(r.Diags, d)
		f, _ := a[0].(string)
		var msg value = "<error>"
		func() {
			defer func() {
				if p := recover(); p != nil {
					if _, ok := p.(unsupportedErr); !ok {
						panic(p)
					}
				}
			}()
			msg = r.sprintf(strings.ReplaceAll(f, "%w", "%v"), variadic(a[1]))
		}()
		r.Stderr = append(r.Stderr, concatV(msg, "\n"))
		return r.newError(msg)
	})
	st[lg+"SetupLogger"] = realLogger(func(r *Run, fr *frame, fn *ssa.Function, a []value) value {
		r.Effects = append(r.Effects, Effect{Op: "SetupLogger", Args: []value{len(variadic(a[0]))}})
		return nil
	})
	st[lg+"Enable"] = realLogger(func(r *Run, fr *frame, fn *ssa.Function, a []value) value { return (*ssa.Function)(nil) })
	st[lg+"Output"] = realLogger(func(r *Run, fr *frame, fn *ssa.Function, a []value) value { return (*ssa.Function)(nil) })
	st[lg+"init"] = realLogger(func(r *Run, fr *frame, fn *ssa.Function, a []value) value { return nil })

	// ---- package log: a Logger is its writer and its flags; Printf / Println format the message,
	// end it with one line break and hand it to the writer in ONE write (package log's contract);
	// a non-zero flag word puts a time stamp in front (opaque text)
	st["log.New"] = func(r *Run, fr *frame, fn *ssa.Function, a []value) value {
		return r.newToken("logger", map[string]value{"w": a[0], "flags": a[2]})
	}
	logWrite := func(r *Run, self value, msg value) value {
		ao, ok := self.(*absObj)
		if !ok || ao == nil || ao.class != "logger" {
			panic(unsupported("log.Logger method on a logger that log.New did not make"))
		}
		if s, ok := msg.(string); ok {
			if !strings.HasSuffix(s, "\n") {
				msg = s + "\n"
			}
		} else {
			panic(unsupported("log.Logger output of a symbolic message"))
		}
		if fl, ok := ao.attrs["flags"].(int); !ok || fl != 0 {
			msg = concatV("<time stamp> ", msg)
		}
		w := ao.attrs["w"]
		if writeToBuilder(w, msg) {
			return nil
		}
		s := streamName(w)
		if s == "discard" {
			return nil
		}
		r.Effects = append(r.Effects, Effect{Op: "print:" + s, Args: []value{msg}})
		if s == "stderr" {
			r.Stderr = append(r.Stderr, msg)
		}
		return nil
	}
	st["(*log.Logger).Printf"] = func(r *Run, fr *frame, fn *ssa.Function, a []value) value {
		f, ok := a[1].(string)
		if !ok {
			panic(unsupported("log.Logger.Printf with a symbolic format"))
		}
		return logWrite(r, a[0], r.sprintf(f, variadic(a[2])))
	}
	st["(*log.Logger).Println"] = func(r *Run, fr *frame, fn *ssa.Function, a []value) value {
		args := variadic(a[1])
		var out value = ""
		for i, x := range args {
			if i > 0 {
				out = concatV(out, " ")
			}
			out = concatV(out, r.sprintf("%v", []value{x}))
		}
		return logWrite(r, a[0], concatV(out, "\n"))
	}

	st["github.com/matoous/go-nanoid.Nanoid"] = func(r *Run, fr *frame, fn *ssa.Function, a []value) value {
		if r.Env["nanoid"] == "symbolic" {
			m := r.newInput(r.freshName("marker"), SStr)
			r.assume(Eq(StrLen(m), IntT(21)))
			return tuple{m, iface{}}
		}
		n := r.fresh["nanoid"]
		r.fresh["nanoid"]++
		return tuple{fmt.Sprintf("MARKER%015d", n), iface{}}
	}
	st["errors.Is"] = func(r *Run, fr *frame, fn *ssa.Function, a []value) value {
		return r.eqv(types.Universe.Lookup("error").Type(), a[0], a[1])
	}
	_ = errors.New
	return st
}

func lenV(v value) value {
	switch x := v.(type) {
	case runesV:
		if x.bytes {
			return len(x.cps)
		}
		// the UTF-8 length of a code-point vector: 1..4 bytes per code point (Sigma holds no
		// surrogates; an invalid code point would encode as U+FFFD, 3 bytes, as well)
		sum := IntT(0)
		concrete := true
		for _, c := range x.cps {
			if c.Op != "const" {
				concrete = false
			}
			sum = Add(sum, Ite(Lt(c, IntT(0x80)), IntT(1), Ite(Lt(c, IntT(0x800)), IntT(2), Ite(Lt(c, IntT(0x10000)), IntT(3), IntT(4)))))
		}
		if concrete {
			n := 0
			for _, c := range x.cps {
				n += utf8.RuneLen(rune(c.I))
			}
			return n
		}
		return termOrInt(sum)
	case string:
		return len(x)
	case *Term:
		return termOrInt(StrLen(x))
	}
	return 0
}

// writeToBuilder appends out to an interpreter-side *strings.Builder / *bytes.Buffer standing
// behind the io.Writer w; any other interpreter-side writer is outside the encoder.
func writeToBuilder(w value, out value) bool {
	iv, ok := w.(iface)
	if !ok {
		return false
	}
	wp, ok := iv.v.(*value)
	if !ok {
		return false
	}
	tn := ""
	if iv.t != nil {
		tn = iv.t.String()
	}
	switch {
	case strings.HasSuffix(tn, "strings.Builder"):
		s := builderSlot(wp, 1)
		*s = concatV(slotStr(s), out)
	case strings.HasSuffix(tn, "bytes.Buffer"):
		s := builderSlot(wp, 0)
		*s = concatV(slotStr(s), out)
	default:
		panic(unsupported("fmt.Fprint* to an interpreter-side writer of type " + tn))
	}
	return true
}

func streamName(w value) string {
	if iv, ok := w.(iface); ok {
		w = iv.v
	}
	if ao, ok := w.(*absObj); ok {
		return ao.class
	}
	if nv, ok := w.(nativeV); ok {
		return nv.rv.Type().String()
	}
	return "writer"
}

func (r *Run) renderMsg(format value, args []value) (msg value) {
	msg = "<message>"
	f, ok := format.(string)
	if !ok {
		return
	}
	defer func() {
		if p := recover(); p != nil {
			if _, ok := p.(unsupportedErr); !ok {
				panic(p)
			}
		}
	}()
	return r.sprintf(strings.ReplaceAll(f, "%w", "%v"), args)
}

func (r *Run) mkDiag(kind string, format value, args []value) Diag {
	d := Diag{Kind: kind}
	d.Format, _ = format.(string)
	for _, a := range args {
		func() {
			defer func() {
				if p := recover(); p != nil {
					d.Args = append(d.Args, "<?>")
				}
			}()
			v := r.formatOne("%v", a)
			if s, ok := v.(string); ok {
				d.Args = append(d.Args, s)
			} else {
				d.Args = append(d.Args, toString(v))
			}
		}()
	}
	return d
}

// callInstr returns a pseudo-instruction carrying the call position (for panics raised in stubs).
func (fr *frame) callInstr() poser { return posInstr{fr.callpos} }
