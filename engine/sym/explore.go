package sym

// Exploration driver: work-list of decision prefixes sharded over workers, each with its own solver.

import (
	"fmt"
	"sort"
	"strings"
	"sync"
	"time"

	"golang.org/x/tools/go/ssa"
)

type HarnessOpts struct {
	MapOrder bool
	Workers  int
	MaxPaths int
	// CrossPath labels: observations that must be equal on every pair of paths with jointly
	// satisfiable path conditions (determinism / order independence)
	CrossPath []string
	KeepRuns  bool
}

type PathSample struct {
	Decisions []int    `json:"decisions"`
	Outcome   string   `json:"outcome"`
	Detail    string   `json:"detail,omitempty"`
	PC        string   `json:"path_condition,omitempty"`
	Obs       []string `json:"observations,omitempty"`
	Effects   []string `json:"effects,omitempty"`
	Diags     []string `json:"diagnostics,omitempty"`
	Asserts   []string `json:"asserts,omitempty"`
}

// ValidationSample: a completed, assertion-clean path with a model of its path condition and
// its concrete observations; replayed natively to validate the encoder against the real build.
type ValidationSample struct {
	Decisions []int
	Model     map[string]interface{}
	Obs       map[string]string // label -> concrete value (only fully concrete string/bool/int observations)
}

type pathObs struct {
	pc  []*Term
	obs map[string][]value
	dec []int
}

type HarnessResult struct {
	Name         string
	Paths        int
	Forks        int
	Outcomes     map[string]int
	AssertStats  map[string]map[string]int
	Obligations  int
	Discharged   int
	Violations   []Violation
	Inconclusive []string
	Reached      map[string]int
	Funcs        map[string]bool
	Stubs        map[string]bool
	Samples      []PathSample
	Steps        int64
	Wall         time.Duration
	UnknownFeas  int
	Vacuous      []string
	CrossChecks  int
	CrossAgree   int // obligations re-decided identically by a secondary solver
	CrossUnknown int // secondary solver timeouts / unknown
	Validation   []ValidationSample
	pathObs      []pathObs
	mu           sync.Mutex
}

func (e *Engine) Explore(h *ssa.Function, opts HarnessOpts, stats *SolverStats) *HarnessResult {
	start := time.Now()
	res := &HarnessResult{Name: h.Name(), Outcomes: map[string]int{}, AssertStats: map[string]map[string]int{},
		Reached: map[string]int{}, Funcs: map[string]bool{}, Stubs: map[string]bool{}}
	if opts.Workers <= 0 {
		opts.Workers = 4
	}
	secStats := &SolverStats{}
	if opts.MaxPaths <= 0 {
		opts.MaxPaths = 200000
	}
	var (
		mu       sync.Mutex
		cond     = sync.NewCond(&mu)
		queue    = [][]int{nil}
		inflight = 0
		done     = false
	)
	var wg sync.WaitGroup
	for w := 0; w < opts.Workers; w++ {
		wg.Add(1)
		go func() {
			defer wg.Done()
			var s *Solver
			var sec []*Solver
			defer func() {
				if s != nil {
					s.Close()
				}
				for _, x := range sec {
					x.Close()
				}
			}()
			for {
				mu.Lock()
				for len(queue) == 0 && inflight > 0 && !done {
					cond.Wait()
				}
				if done || (len(queue) == 0 && inflight == 0) {
					done = true
					cond.Broadcast()
					mu.Unlock()
					return
				}
				prefix := queue[len(queue)-1]
				queue = queue[:len(queue)-1]
				inflight++
				mu.Unlock()

				if s == nil {
					var err error
					s, err = NewSolver(e.SolverKind, e.TimeoutMs, stats, e.Prelude)
					if err != nil {
						panic(err)
					}
				}
				if e.CrossCheck > 0 && sec == nil {
					for _, k := range []SolverKind{SolverZ3Old, SolverCVC5} {
						if x, err := NewSolver(k, e.TimeoutMs, secStats, e.Prelude); err == nil {
							sec = append(sec, x)
						}
					}
				}
				pr := e.ExecPath(s, h, prefix, opts.MapOrder, sec...)
				res.record(pr, opts)

				mu.Lock()
				inflight--
				queue = append(queue, pr.Run.Pending()...)
				if res.Paths >= opts.MaxPaths {
					done = true
					res.Inconclusive = append(res.Inconclusive, "path bound reached")
				}
				cond.Broadcast()
				mu.Unlock()
			}
		}()
	}
	wg.Wait()
	// vacuity: every Reach label and the end must be reached on at least one path
	if res.Outcomes["ok"] == 0 && res.Outcomes["exit"] == 0 {
		res.Vacuous = append(res.Vacuous, "no path completed normally")
	}
	if len(opts.CrossPath) > 0 {
		res.crossPath(e, opts, stats)
	}
	res.Wall = time.Since(start)
	sort.Slice(res.Violations, func(i, j int) bool {
		return fmt.Sprint(res.Violations[i].Decisions) < fmt.Sprint(res.Violations[j].Decisions)
	})
	return res
}

func (res *HarnessResult) record(pr PathResult, opts HarnessOpts) {
	res.mu.Lock()
	defer res.mu.Unlock()
	r := pr.Run
	res.Paths++
	res.Forks += len(pr.Decisions)
	res.Outcomes[pr.Outcome]++
	res.Steps += int64(r.steps)
	res.CrossAgree += r.CrossAgree
	res.CrossUnknown += r.CrossUnknown
	res.UnknownFeas += r.unknownFeas
	for _, a := range r.Asserts {
		m := res.AssertStats[a.Label]
		if m == nil {
			m = map[string]int{}
			res.AssertStats[a.Label] = m
		}
		m[a.Status]++
		res.Obligations++
		if a.Status == "discharged" || a.Status == "trivially-true" {
			res.Discharged++
		}
	}
	res.Violations = append(res.Violations, r.Viol...)
	res.Inconclusive = append(res.Inconclusive, r.Inconclusive...)
	for k := range r.Reached {
		res.Reached[k]++
	}
	for k := range r.funcs {
		res.Funcs[k] = true
	}
	for k := range r.stubsHit {
		res.Stubs[k] = true
	}
	switch pr.Outcome {
	case "unsupported":
		res.Inconclusive = append(res.Inconclusive, "ENCODER-UNSUPPORTED "+pr.Detail)
	case "unwind":
		res.Inconclusive = append(res.Inconclusive, "UNWIND-EXCEEDED "+pr.Detail)
	case "engine-bug":
		res.Inconclusive = append(res.Inconclusive, "ENGINE-BUG "+pr.Detail)
	}
	if len(res.Samples) < 6 || (pr.Outcome != "ok" && len(res.Samples) < 12) {
		res.Samples = append(res.Samples, sampleOf(pr))
	}
	if pr.Model != nil && pr.Outcome == "ok" && len(r.Viol) == 0 && len(res.Validation) < 12 {
		vs := ValidationSample{Decisions: pr.Decisions, Model: pr.Model, Obs: map[string]string{}}
		for _, o := range r.ObsList {
			switch x := o.Val.(type) {
			case string:
				vs.Obs[o.Label] = x
			case bool, int:
				vs.Obs[o.Label] = fmt.Sprint(x)
			}
		}
		res.Validation = append(res.Validation, vs)
	}
	if len(opts.CrossPath) > 0 && (pr.Outcome == "ok" || pr.Outcome == "exit") {
		po := pathObs{pc: append([]*Term(nil), r.pc...), obs: map[string][]value{}, dec: pr.Decisions}
		for _, o := range r.ObsList {
			po.obs[o.Label] = append(po.obs[o.Label], o.Val)
		}
		res.pathObs = append(res.pathObs, po)
	}
}

func sampleOf(pr PathResult) PathSample {
	r := pr.Run
	s := PathSample{Decisions: pr.Decisions, Outcome: pr.Outcome, Detail: clip(pr.Detail, 300), PC: clip(r.pcString(), 600)}
	for _, o := range r.ObsList {
		s.Obs = append(s.Obs, o.Label+" = "+clip(toString(o.Val), 300))
	}
	for _, e := range r.Effects {
		var as []string
		for _, a := range e.Args {
			as = append(as, clip(toString(a), 80))
		}
		s.Effects = append(s.Effects, e.Op+"("+strings.Join(as, ", ")+")")
	}
	for _, d := range r.Diags {
		s.Diags = append(s.Diags, d.Kind+": "+d.Format+" "+strings.Join(d.Args, " | "))
	}
	for _, a := range r.Asserts {
		s.Asserts = append(s.Asserts, a.Label+":"+a.Status)
	}
	if len(s.Asserts) > 12 {
		s.Asserts = append(s.Asserts[:12], fmt.Sprintf("… %d more", len(r.Asserts)-12))
	}
	return s
}

func clip(s string, n int) string {
	if len(s) > n {
		return s[:n] + "…"
	}
	return s
}

// crossPath: for every pair of completed paths whose path conditions are jointly satisfiable,
// the observations under the given labels must be equal. Paths are bucketed by their path
// condition (as a set): inside a bucket (same inputs, different schedule) every path is compared
// with the bucket's representative; representatives of different buckets are compared unless
// their conditions are syntactically contradictory.
func (res *HarnessResult) crossPath(e *Engine, opts HarnessOpts, stats *SolverStats) {
	s, err := NewSolver(e.SolverKind, e.TimeoutMs, stats, e.Prelude)
	if err != nil {
		panic(err)
	}
	defer s.Close()
	type bucket struct {
		rep     *pathObs
		set     map[*Term]bool
		eqs     map[*Term]*Term // var -> constant it is equated with
		members []*pathObs
	}
	buckets := map[string]*bucket{}
	var order []string
	for i := range res.pathObs {
		po := &res.pathObs[i]
		ks := make([]string, 0, len(po.pc))
		set := map[*Term]bool{}
		for _, t := range po.pc {
			if !set[t] {
				set[t] = true
				ks = append(ks, fmt.Sprintf("%p", t))
			}
		}
		sort.Strings(ks)
		key := strings.Join(ks, ",")
		b := buckets[key]
		if b == nil {
			eqs := map[*Term]*Term{}
			for t := range set {
				if t.Op == "=" && len(t.Args) == 2 {
					x, y := t.Args[0], t.Args[1]
					if x.Op == "const" {
						x, y = y, x
					}
					if x.Op == "var" && y.Op == "const" {
						eqs[x] = y
					}
				}
			}
			b = &bucket{rep: po, set: set, eqs: eqs}
			buckets[key] = b
			order = append(order, key)
		}
		b.members = append(b.members, po)
	}
	query := func(label string, a, b *pathObs) {
		diff := obsDiffer(a.obs[label], b.obs[label])
		if diff == TFalse {
			return
		}
		res.CrossChecks++
		res.Obligations++
		var all []*Term
		all = append(all, a.pc...)
		all = append(all, b.pc...)
		all = append(all, diff)
		var vars []*Term
		seen := map[*Term]bool{}
		for _, t := range all {
			collectDecls(t, seen, &vars)
		}
		var inputs []*Term
		for _, v := range vars {
			if v.Op == "var" {
				inputs = append(inputs, v)
			}
		}
		r, m := s.CheckModel(inputs, all...)
		switch r {
		case Unsat:
			res.Discharged++
		case Sat:
			res.Violations = append(res.Violations, Violation{Harness: res.Name, Label: "cross-path:" + label, Model: m,
				Decisions: a.dec, Detail: fmt.Sprintf("paths %v and %v observe different %s: %s vs %s", a.dec, b.dec, label, clip(obsString(a.obs[label]), 300), clip(obsString(b.obs[label]), 300))})
		default:
			res.Inconclusive = append(res.Inconclusive, "cross-path "+label+": solver unknown")
		}
	}
	for _, label := range opts.CrossPath {
		for _, k := range order {
			b := buckets[k]
			for _, m := range b.members[1:] {
				query(label, b.rep, m)
			}
		}
		for i := 0; i < len(order); i++ {
			bi := buckets[order[i]]
			for j := i + 1; j < len(order); j++ {
				bj := buckets[order[j]]
				contra := false
				for t := range bj.set {
					if bi.set[Not(t)] {
						contra = true
						break
					}
				}
				if !contra {
					for v, c := range bj.eqs {
						if c2, ok := bi.eqs[v]; ok && c2 != c {
							contra = true
							break
						}
					}
				}
				if contra {
					continue
				}
				query(label, bi.rep, bj.rep)
			}
		}
	}
}

func obsString(a []value) string {
	var ss []string
	for _, v := range a {
		ss = append(ss, toString(v))
	}
	return strings.Join(ss, "; ")
}

// obsDiffer returns a term that is true iff the two observation lists differ.
func obsDiffer(a, b []value) *Term {
	if len(a) != len(b) {
		return TTrue
	}
	var eqs []*Term
	for i := range a {
		eqs = append(eqs, obsEq(a[i], b[i]))
	}
	return Not(And(eqs...))
}

func obsEq(x, y value) *Term {
	tx, okx := x.(*Term)
	ty, oky := y.(*Term)
	if okx || oky {
		defer func() { recover() }()
		if !okx {
			tx = asTerm(x)
		}
		if !oky {
			ty = asTerm(y)
		}
		if tx.Sort != ty.Sort {
			return TFalse
		}
		return Eq(tx, ty)
	}
	if toString(x) == toString(y) {
		return TTrue
	}
	return TFalse
}

func contradictory(a, b []*Term) bool {
	set := map[*Term]bool{}
	for _, t := range a {
		set[t] = true
	}
	for _, t := range b {
		if set[Not(t)] {
			return true
		}
	}
	return false
}
