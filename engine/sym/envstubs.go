package sym

// Environment stubs (file system, flags, formatter) and the vrt runtime intercepts.

import (
	"fmt"
	goparser "go/parser"
	"go/types"
	"os"
	"path/filepath"
	"reflect"
	"regexp"
	"strings"

	"golang.org/x/tools/go/ssa"
)

const vrtPkg = "github.com/reedom/convergen/pkg/vrt."

func (r *Run) symFS() bool { return r.Env["fs"] == "symbolic" }

// keyOf: a stable textual key of a path value (the string itself when concrete).
func keyOf(v value) string {
	if s, ok := v.(string); ok {
		return s
	}
	return toString(v)
}

// nondetErr returns a nil or fresh non-nil error, chosen by a named symbolic boolean.
func (r *Run) nondetErr(name string) value {
	b := r.newInput(r.freshName(name), SBool)
	if r.branch(b) {
		return r.newError("<" + name + ">")
	}
	return iface{}
}

func (r *Run) newToken(class string, attrs map[string]value) *absObj {
	o := &absObj{class: class, id: r.fresh["tok:"+class], attrs: attrs, meth: map[string]func(*Run, *absObj, []value) value{}}
	r.fresh["tok:"+class]++
	return o
}

func EnvStubs(st map[string]StubFn) {
	st["os.Stat"] = func(r *Run, fr *frame, fn *ssa.Function, a []value) value {
		if !r.symFS() {
			if anySym(a) {
				panic(unsupported("os.Stat of symbolic path with native file system"))
			}
			fi, err := os.Stat(a[0].(string))
			if err != nil {
				return tuple{iface{}, r.newError(err.Error())}
			}
			return tuple{iface{v: nativeV{reflect.ValueOf(fi)}}, iface{}}
		}
		r.Effects = append(r.Effects, Effect{Op: "Stat", Args: []value{a[0]}})
		// symbolic file system: the file exists or not (per path string, memoised by term);
		// the harness may fix the outcome with SetEnv("fs.exists:<path>", bool)
		key := "stat:" + keyOf(a[0])
		if v, ok := r.Env[key]; ok {
			return v
		}
		var res value
		var exists value
		if hv, ok := r.Env["fs.exists:"+keyOf(a[0])]; ok {
			exists = hv
		} else {
			exists = r.newInput(r.freshName("exists("+keyOf(a[0])+")"), SBool)
		}
		if r.branch(exists) {
			res = tuple{iface{v: r.newToken("fileinfo", map[string]value{"path": a[0]})}, iface{}}
		} else {
			res = tuple{iface{}, r.newError("stat: no such file")}
		}
		r.Env[key] = res
		return res
	}
	st["os.SameFile"] = func(r *Run, fr *frame, fn *ssa.Function, a []value) value {
		x, y := a[0].(iface), a[1].(iface)
		if nx, ok := x.v.(nativeV); ok {
			if y.isNil() {
				return false
			}
			ny := y.v.(nativeV)
			return os.SameFile(nx.rv.Interface().(os.FileInfo), ny.rv.Interface().(os.FileInfo))
		}
		if x.isNil() || y.isNil() {
			return false
		}
		ox, oy := x.v.(*absObj), y.v.(*absObj)
		if ox == oy {
			return true
		}
		// two stat results are the same file iff the harness-declared identity says so:
		// same-file relation is a symbolic boolean per unordered pair of path terms
		px, py := keyOf(ox.attrs["path"]), keyOf(oy.attrs["path"])
		if px == py {
			return true
		}
		if px > py {
			px, py = py, px
		}
		key := "samefile(" + px + "," + py + ")"
		if v, ok := r.Env[key]; ok {
			return v
		}
		var b value
		if hv, ok := r.Env["fs.same:"+px+"|"+py]; ok {
			b = hv
		} else {
			b = r.newInput(key, SBool)
		}
		res := r.branch(b)
		r.Env[key] = res
		return res
	}
	st["os.OpenFile"] = func(r *Run, fr *frame, fn *ssa.Function, a []value) value {
		r.Effects = append(r.Effects, Effect{Op: "OpenFile", Args: []value{a[0], a[1], a[2]}})
		err := r.nondetErr("OpenFile.err")
		if !err.(iface).isNil() {
			return tuple{(*value)(nil), err}
		}
		f := r.newToken("file", map[string]value{"path": a[0]})
		// writes through the handle are effects of their own (content as written, in order)
		write := func(r *Run, self *absObj, args []value) value {
			out := bytesToStr(args[0])
			r.Effects = append(r.Effects, Effect{Op: "FileWrite", Args: []value{self.attrs["path"], out}})
			err := r.nondetErr("FileWrite.err")
			if !err.(iface).isNil() {
				return tuple{0, err}
			}
			return tuple{lenV(out), iface{}}
		}
		f.meth["Write"] = write
		f.meth["WriteString"] = write
		f.meth["Close"] = func(r *Run, self *absObj, args []value) value {
			r.Effects = append(r.Effects, Effect{Op: "FileClose", Args: []value{self.attrs["path"]}})
			return r.nondetErr("FileClose.err")
		}
		f.meth["Sync"] = func(r *Run, self *absObj, args []value) value { return r.nondetErr("FileSync.err") }
		f.meth["Name"] = func(r *Run, self *absObj, args []value) value { return self.attrs["path"] }
		return tuple{f, iface{}}
	}
	// A temporary file: created in a directory under a name the run-time chooses (a fresh string,
	// different from every path the program knows), written through its handle, then renamed,
	// chmod-ed or removed by name. Every step may fail.
	st["os.CreateTemp"] = func(r *Run, fr *frame, fn *ssa.Function, a []value) value {
		r.Effects = append(r.Effects, Effect{Op: "CreateTemp", Args: []value{a[0], a[1]}})
		err := r.nondetErr("CreateTemp.err")
		if !err.(iface).isNil() {
			r.Effects[len(r.Effects)-1].Args = append(r.Effects[len(r.Effects)-1].Args, "")
			return tuple{(*value)(nil), err}
		}
		// a name of the run-time's choosing: a concrete string no path of the program can equal
		// (it is longer than every bound on symbolic paths and starts with a NUL byte)
		var name value = fmt.Sprintf("\x00temporary-file-of-the-run-time-%d", r.fresh["tempfile"])
		r.fresh["tempfile"]++
		r.Effects[len(r.Effects)-1].Args = append(r.Effects[len(r.Effects)-1].Args, name)
		f := r.newToken("file", map[string]value{"path": name})
		write := func(r *Run, self *absObj, args []value) value {
			out := bytesToStr(args[0])
			r.Effects = append(r.Effects, Effect{Op: "FileWrite", Args: []value{self.attrs["path"], out}})
			err := r.nondetErr("FileWrite.err")
			if !err.(iface).isNil() {
				return tuple{0, err}
			}
			return tuple{lenV(out), iface{}}
		}
		f.meth["Write"] = write
		f.meth["WriteString"] = write
		f.meth["Close"] = func(r *Run, self *absObj, args []value) value {
			r.Effects = append(r.Effects, Effect{Op: "FileClose", Args: []value{self.attrs["path"]}})
			return r.nondetErr("FileClose.err")
		}
		f.meth["Name"] = func(r *Run, self *absObj, args []value) value { return self.attrs["path"] }
		return tuple{f, iface{}}
	}
	st["os.Rename"] = func(r *Run, fr *frame, fn *ssa.Function, a []value) value {
		r.Effects = append(r.Effects, Effect{Op: "Rename", Args: []value{a[0], a[1]}})
		return r.nondetErr("Rename.err")
	}
	st["os.Remove"] = func(r *Run, fr *frame, fn *ssa.Function, a []value) value {
		r.Effects = append(r.Effects, Effect{Op: "Remove", Args: []value{a[0]}})
		return r.nondetErr("Remove.err")
	}
	st["os.Chmod"] = func(r *Run, fr *frame, fn *ssa.Function, a []value) value {
		r.Effects = append(r.Effects, Effect{Op: "Chmod", Args: []value{a[0], a[1]}})
		return r.nondetErr("Chmod.err")
	}
	// filepath.Dir / Base of a symbolic path: uninterpreted functions of the path
	pathFn := func(name string, native func(string) string) StubFn {
		return func(r *Run, fr *frame, fn *ssa.Function, a []value) value {
			if s, ok := a[0].(string); ok {
				return native(s)
			}
			if t, ok := a[0].(*Term); ok {
				return UF(name, SStr, t)
			}
			panic(unsupported(name + " of a vector string"))
		}
	}
	st["path/filepath.Dir"] = pathFn("filepath.Dir", filepath.Dir)
	st["path/filepath.Base"] = pathFn("filepath.Base", filepath.Base)
	st["os.WriteFile"] = func(r *Run, fr *frame, fn *ssa.Function, a []value) value {
		r.Effects = append(r.Effects, Effect{Op: "WriteFile", Args: []value{a[0], bytesToStr(a[1]), a[2]}})
		return r.nondetErr("WriteFile.err")
	}
	// Reading a file: arbitrary failure or arbitrary content. Recorded as a "read:" effect (a read
	// modifies nothing), so that a harness can still see which path was consulted.
	st["os.ReadFile"] = func(r *Run, fr *frame, fn *ssa.Function, a []value) value {
		r.Effects = append(r.Effects, Effect{Op: "read:ReadFile", Args: []value{a[0]}})
		err := r.nondetErr("ReadFile.err")
		if !err.(iface).isNil() {
			return tuple{[]value(nil), err}
		}
		return tuple{symBytes{r.newInput(r.freshName("fs.content"), SStr)}, iface{}}
	}
	// bytes.Equal is string equality; bytes.TrimSpace is an uninterpreted function of its argument
	// (sound for "may differ / may coincide" questions: the solver may choose any trimming).
	st["bytes.Equal"] = func(r *Run, fr *frame, fn *ssa.Function, a []value) value {
		return Eq(strTermOf(bytesToStr(a[0])), strTermOf(bytesToStr(a[1])))
	}
	st["bytes.TrimSpace"] = func(r *Run, fr *frame, fn *ssa.Function, a []value) value {
		return symBytes{UF("bytes.TrimSpace", SStr, strTermOf(bytesToStr(a[0])))}
	}
	// go/parser.ParseExpr on symbolic text: an arbitrary but consistent predicate of the text (the
	// same value for the same text within a path); vrt.ParsesAsExpr is the harness's view of it
	parsesAsExpr := func(r *Run, text value) bool {
		if s, ok := text.(string); ok {
			_, err := goparser.ParseExpr(s)
			return err == nil
		}
		key := "parseexpr:" + toString(text)
		v, ok := r.Env[key]
		if !ok {
			v = r.newInput(r.freshName("parses-as-expr"), SBool)
			r.Env[key] = v
		}
		return r.branch(v)
	}
	st["go/parser.ParseExpr"] = func(r *Run, fr *frame, fn *ssa.Function, a []value) value {
		if s, ok := a[0].(string); ok {
			// concrete text: the real parser's verdict and message
			if _, err := goparser.ParseExpr(s); err != nil {
				return tuple{iface{}, r.newError(err.Error())}
			}
			return tuple{iface{}, iface{}}
		}
		if parsesAsExpr(r, a[0]) {
			return tuple{iface{}, iface{}}
		}
		return tuple{iface{}, r.newError("<not a Go expression>")}
	}
	st[vrtPkg+"ParsesAsExpr"] = func(r *Run, fr *frame, fn *ssa.Function, a []value) value {
		return parsesAsExpr(r, a[0])
	}
	st["os.Getenv"] = func(r *Run, fr *frame, fn *ssa.Function, a []value) value {
		k, _ := a[0].(string)
		if v, ok := r.Env["env:"+k]; ok {
			return v
		}
		return ""
	}
	// os.LookupEnv: the value os.Getenv gives, and "set" - a variable with a non-empty value is
	// set; an empty one may be set or not (arbitrary)
	st["os.LookupEnv"] = func(r *Run, fr *frame, fn *ssa.Function, a []value) value {
		k, _ := a[0].(string)
		v, ok := r.Env["env:"+k]
		if !ok {
			return tuple{"", false}
		}
		switch x := v.(type) {
		case string:
			if x != "" {
				return tuple{x, true}
			}
			return tuple{x, r.branch(r.newInput("env.set:"+k, SBool))}
		case *Term:
			if r.branch(simplifyBool(Not(Eq(x, StrT(""))))) {
				return tuple{v, true}
			}
			return tuple{v, r.branch(r.newInput("env.set:"+k, SBool))}
		case runesV:
			if len(x.cps) > 0 {
				return tuple{v, true}
			}
			return tuple{v, r.branch(r.newInput("env.set:"+k, SBool))}
		}
		panic(unsupported("os.LookupEnv of " + k))
	}
	st["os.Exit"] = func(r *Run, fr *frame, fn *ssa.Function, a []value) value {
		panic(exitPath{a[0]})
	}
	st["golang.org/x/tools/imports.Process"] = func(r *Run, fr *frame, fn *ssa.Function, a []value) value {
		r.Effects = append(r.Effects, Effect{Op: "imports.Process", Args: []value{a[0], bytesToStr(a[1])}})
		err := r.nondetErr("imports.err")
		if !err.(iface).isNil() {
			return tuple{[]value(nil), err}
		}
		return tuple{symBytes{r.newInput(r.freshName("imports.out"), SStr)}, iface{}}
	}
	st["go/format.Source"] = func(r *Run, fr *frame, fn *ssa.Function, a []value) value {
		r.Effects = append(r.Effects, Effect{Op: "format.Source", Args: []value{bytesToStr(a[0])}})
		err := r.nondetErr("format.err")
		if !err.(iface).isNil() {
			return tuple{[]value(nil), err}
		}
		return tuple{symBytes{r.newInput(r.freshName("format.out"), SStr)}, iface{}}
	}

	// ---- flag (C18): values come from the harness-declared environment
	flagVal := func(kind string) StubFn {
		return func(r *Run, fr *frame, fn *ssa.Function, a []value) value {
			name := a[0].(string)
			v, ok := r.Env["flag:"+name]
			if !ok {
				v = a[1] // default
			}
			cell := new(value)
			*cell = v
			return cell
		}
	}
	st["flag.String"] = flagVal("string")
	st["flag.Bool"] = flagVal("bool")
	st["flag.Parse"] = func(r *Run, fr *frame, fn *ssa.Function, a []value) value { return nil }
	st["flag.PrintDefaults"] = func(r *Run, fr *frame, fn *ssa.Function, a []value) value {
		r.Effects = append(r.Effects, Effect{Op: "print:stderr", Args: []value{"<flag defaults>"}})
		return nil
	}
	st["flag.Arg"] = func(r *Run, fr *frame, fn *ssa.Function, a []value) value {
		i := r.concreteInt(a[0], "flag.Arg index")
		if v, ok := r.Env[fmt.Sprintf("arg:%d", i)]; ok {
			return v
		}
		return ""
	}

	// ---- vrt runtime
	st[vrtPkg+"Bool"] = func(r *Run, fr *frame, fn *ssa.Function, a []value) value {
		return r.newInput(a[0].(string), SBool)
	}
	st[vrtPkg+"Int"] = func(r *Run, fr *frame, fn *ssa.Function, a []value) value {
		v := r.newInput(a[0].(string), SInt)
		r.assume(And(Le(IntT(asInt64(a[1])), v), Le(v, IntT(asInt64(a[2])))))
		return v
	}
	st[vrtPkg+"String"] = func(r *Run, fr *frame, fn *ssa.Function, a []value) value {
		v := r.newInput(a[0].(string), SStr)
		r.assume(Le(StrLen(v), IntT(asInt64(a[1]))))
		return v
	}
	st[vrtPkg+"Bytes"] = func(r *Run, fr *frame, fn *ssa.Function, a []value) value {
		name := a[0].(string)
		max := int(asInt64(a[1]))
		lv := r.newInput(name+".len", SInt)
		conds := make([]*Term, max+1)
		for i := range conds {
			conds[i] = Eq(lv, IntT(int64(i)))
		}
		n := r.decide(conds)
		cps := make([]*Term, n)
		for i := range cps {
			c := r.newInput(fmt.Sprintf("%s[%d]", name, i), SInt)
			r.assume(And(Le(IntT(1), c), Le(c, IntT(127))))
			cps[i] = c
		}
		return runesV{cps, true}.norm()
	}
	st[vrtPkg+"Runes"] = func(r *Run, fr *frame, fn *ssa.Function, a []value) value {
		name := a[0].(string)
		max := int(asInt64(a[1]))
		lv := r.newInput(name+".len", SInt)
		conds := make([]*Term, max+1)
		for i := range conds {
			conds[i] = Eq(lv, IntT(int64(i)))
		}
		n := r.decide(conds)
		cps := make([]*Term, n)
		for i := range cps {
			c := r.newInput(fmt.Sprintf("%s[%d]", name, i), SInt)
			r.assume(inSigma(c))
			cps[i] = c
		}
		return runesV{cps, false}.norm()
	}
	st[vrtPkg+"RefFoldEq"] = func(r *Run, fr *frame, fn *ssa.Function, a []value) value {
		if !anySym(a) {
			return strings.EqualFold(a[0].(string), a[1].(string))
		}
		return r.runesEqualFold(a[0], a[1])
	}
	st[vrtPkg+"RefRegexpMatch"] = func(r *Run, fr *frame, fn *ssa.Function, a []value) value {
		expr := a[0].(string)
		if s, ok := a[1].(string); ok {
			return regexp.MustCompile(expr).MatchString(s)
		}
		v := toRunes(a[1])
		return simplifyBool(RegexpMembership(expr, v.cps))
	}
	st[vrtPkg+"Or"] = func(r *Run, fr *frame, fn *ssa.Function, a []value) value {
		return simplifyBool(Or(asTerm(a[0]), asTerm(a[1])))
	}
	st[vrtPkg+"And"] = func(r *Run, fr *frame, fn *ssa.Function, a []value) value {
		return simplifyBool(And(asTerm(a[0]), asTerm(a[1])))
	}
	st[vrtPkg+"Implies"] = func(r *Run, fr *frame, fn *ssa.Function, a []value) value {
		return simplifyBool(Implies(asTerm(a[0]), asTerm(a[1])))
	}
	st[vrtPkg+"SkeletonPath"] = func(r *Run, fr *frame, fn *ssa.Function, a []value) value {
		return r.E.SkeletonRoot + "/" + a[0].(string) + "/setup.go"
	}
	st[vrtPkg+"CaptureStderr"] = func(r *Run, fr *frame, fn *ssa.Function, a []value) value {
		start := len(r.Stderr)
		r.call(fr, fr.callpos, a[0], nil)
		var out value = ""
		for _, v := range r.Stderr[start:] {
			out = concatV(out, v)
		}
		return out
	}
	st[vrtPkg+"Choose"] = func(r *Run, fr *frame, fn *ssa.Function, a []value) value {
		// an input-level choice: recorded as a named Int so that models/replays see it
		k := int(asInt64(a[1]))
		v := r.newInput(a[0].(string), SInt)
		conds := make([]*Term, k)
		for i := range conds {
			conds[i] = Eq(v, IntT(int64(i)))
		}
		return r.decide(conds)
	}
	st[vrtPkg+"Assume"] = func(r *Run, fr *frame, fn *ssa.Function, a []value) value {
		switch c := a[0].(type) {
		case bool:
			if !c {
				panic(abortPath{"assume(false)"})
			}
		case *Term:
			if r.S.CheckWith(c) == Unsat {
				panic(abortPath{"assumption infeasible"})
			}
			r.assume(c)
		}
		return nil
	}
	st[vrtPkg+"Assert"] = func(r *Run, fr *frame, fn *ssa.Function, a []value) value {
		r.assertCond(a[0].(string), a[1], "")
		return nil
	}
	st[vrtPkg+"AssertMsg"] = func(r *Run, fr *frame, fn *ssa.Function, a []value) value {
		r.assertCond(a[0].(string), a[1], toString(a[2]))
		return nil
	}
	st[vrtPkg+"Observe"] = func(r *Run, fr *frame, fn *ssa.Function, a []value) value {
		v := a[1]
		if iv, ok := v.(iface); ok {
			v = iv.v
		}
		r.ObsList = append(r.ObsList, Obs{a[0].(string), v})
		return nil
	}
	st[vrtPkg+"Reach"] = func(r *Run, fr *frame, fn *ssa.Function, a []value) value {
		r.Reached[a[0].(string)] = true
		return nil
	}
	st[vrtPkg+"Thorough"] = func(r *Run, fr *frame, fn *ssa.Function, a []value) value {
		return os.Getenv("VERIF_TIER") == "thorough"
	}
	st[vrtPkg+"Symbolic"] = func(r *Run, fr *frame, fn *ssa.Function, a []value) value { return true }
	st[vrtPkg+"SetEnv"] = func(r *Run, fr *frame, fn *ssa.Function, a []value) value {
		v := a[1]
		if iv, ok := v.(iface); ok {
			v = iv.v
		}
		r.Env[a[0].(string)] = v
		return nil
	}
	st[vrtPkg+"EffectCount"] = func(r *Run, fr *frame, fn *ssa.Function, a []value) value { return len(r.Effects) }
	// (an index outside the trace names no effect: empty answers, as on the native side)
	noEffect := func(r *Run, i value) bool { k := asInt64(i); return k < 0 || k >= int64(len(r.Effects)) }
	st[vrtPkg+"EffectOp"] = func(r *Run, fr *frame, fn *ssa.Function, a []value) value {
		if noEffect(r, a[0]) {
			return ""
		}
		return r.Effects[asInt64(a[0])].Op
	}
	st[vrtPkg+"EffectStr"] = func(r *Run, fr *frame, fn *ssa.Function, a []value) value {
		if noEffect(r, a[0]) {
			return ""
		}
		e := r.Effects[asInt64(a[0])]
		j := int(asInt64(a[1]))
		if j >= len(e.Args) {
			return ""
		}
		switch x := e.Args[j].(type) {
		case string, *Term, runesV:
			return x
		}
		return toString(e.Args[j])
	}
	st[vrtPkg+"EffectInt"] = func(r *Run, fr *frame, fn *ssa.Function, a []value) value {
		if noEffect(r, a[0]) {
			return 0
		}
		e := r.Effects[asInt64(a[0])]
		j := int(asInt64(a[1]))
		if j >= len(e.Args) {
			return 0
		}
		return int(asInt64(e.Args[j]))
	}
	st[vrtPkg+"DiagCount"] = func(r *Run, fr *frame, fn *ssa.Function, a []value) value { return len(r.Diags) }
	st[vrtPkg+"DiagKind"] = func(r *Run, fr *frame, fn *ssa.Function, a []value) value {
		return r.Diags[asInt64(a[0])].Kind
	}
	st[vrtPkg+"DiagFormat"] = func(r *Run, fr *frame, fn *ssa.Function, a []value) value {
		return r.Diags[asInt64(a[0])].Format
	}
	st[vrtPkg+"DiagArg"] = func(r *Run, fr *frame, fn *ssa.Function, a []value) value {
		d := r.Diags[asInt64(a[0])]
		j := int(asInt64(a[1]))
		if j >= len(d.Args) {
			return ""
		}
		return d.Args[j]
	}
	st[vrtPkg+"IsConcrete"] = func(r *Run, fr *frame, fn *ssa.Function, a []value) value {
		v := a[0]
		if iv, ok := v.(iface); ok {
			v = iv.v
		}
		return !anySym([]value{v})
	}
}

var _ = types.Typ

func strTermOf(v value) *Term {
	switch x := v.(type) {
	case *Term:
		return x
	case string:
		return StrT(x)
	}
	panic(unsupported(fmt.Sprintf("strTermOf(%T)", v)))
}
