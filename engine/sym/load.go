package sym

// Front end: load /repo's current working tree (plus overlay-injected harness packages) into SSA.

import (
	"fmt"
	"go/types"
	"os"
	"path/filepath"
	"strings"

	"golang.org/x/tools/go/packages"
	"golang.org/x/tools/go/ssa"
	"golang.org/x/tools/go/ssa/ssautil"
)

type LoadConfig struct {
	RepoDir    string
	Overlay    map[string]string // virtual path under RepoDir -> real file
	Patterns   []string
	Tags       string
	InterpPref []string // package path prefixes that are interpreted
	Dir        string   // working dir for the load (default RepoDir)
}

// OverlayFromDirs maps every *.go file of realDir to virtDir.
func OverlayFromDirs(ov map[string][]byte, realDir, virtDir string) error {
	ents, err := os.ReadDir(realDir)
	if err != nil {
		return err
	}
	for _, e := range ents {
		if e.IsDir() || !strings.HasSuffix(e.Name(), ".go") {
			continue
		}
		b, err := os.ReadFile(filepath.Join(realDir, e.Name()))
		if err != nil {
			return err
		}
		ov[filepath.Join(virtDir, e.Name())] = b
	}
	return nil
}

type Loaded struct {
	Engine *Engine
	Pkgs   []*packages.Package
	SSA    map[string]*ssa.Package
}

func Load(cfg LoadConfig, overlay map[string][]byte) (*Loaded, error) {
	dir := cfg.Dir
	if dir == "" {
		dir = cfg.RepoDir
	}
	pc := &packages.Config{
		Mode: packages.NeedName | packages.NeedFiles | packages.NeedCompiledGoFiles | packages.NeedImports |
			packages.NeedDeps | packages.NeedTypes | packages.NeedSyntax | packages.NeedTypesInfo | packages.NeedTypesSizes | packages.NeedModule,
		Dir:     dir,
		Overlay: overlay,
		Env:     append(os.Environ(), "GOFLAGS=-mod=mod", "GOPROXY=off", "GOSUMDB=off", "GOTOOLCHAIN=local"),
	}
	if cfg.Tags != "" {
		pc.BuildFlags = []string{"-tags", cfg.Tags}
	}
	pkgs, err := packages.Load(pc, cfg.Patterns...)
	if err != nil {
		return nil, err
	}
	var errs []string
	packages.Visit(pkgs, nil, func(p *packages.Package) {
		for _, e := range p.Errors {
			errs = append(errs, e.Error())
		}
	})
	if len(errs) > 0 {
		return nil, fmt.Errorf("load errors:\n%s", strings.Join(errs, "\n"))
	}
	prog, _ := ssautil.AllPackages(pkgs, ssa.InstantiateGenerics)
	interp := func(p *ssa.Package) bool {
		if p == nil || p.Pkg == nil {
			return false
		}
		for _, pre := range cfg.InterpPref {
			if p.Pkg.Path() == pre || strings.HasPrefix(p.Pkg.Path(), pre+"/") {
				return true
			}
		}
		return false
	}
	m := map[string]*ssa.Package{}
	for _, p := range prog.AllPackages() {
		m[p.Pkg.Path()] = p
		if interp(p) {
			p.Build()
		}
	}
	e := &Engine{
		Prog:           prog,
		Fset:           prog.Fset,
		Interpreted:    interp,
		Sizes:          types.SizesFor("gc", "amd64"),
		Stubs:          BaseStubs(),
		Natives:        map[string]interface{}{},
		Whitelist:      map[string]bool{},
		WhitelistPkgs:  map[string]bool{"path": true, "strings": true, "internal/stringslite": true, "unicode/utf8": true, "go/ast": true, "go/token": true},
		MaxSteps:       4_000_000,
		MaxForks:       4000,
		MaxBlockVisits: 50000,
		SolverKind:     SolverZ3New,
		TimeoutMs:      10000,
	}
	// Library packages interpreted from their own SSA are built NOW, before any worker runs: a
	// lazy Build() from one worker publishes half-built function bodies (Blocks set, lifting not
	// done) to the others.
	for path := range e.WhitelistPkgs {
		if p := m[path]; p != nil {
			p.Build()
		}
	}
	Sigma()
	e.Prelude = C19Prelude()
	EnvStubs(e.Stubs)
	StageStubs(e.Stubs)
	return &Loaded{Engine: e, Pkgs: pkgs, SSA: m}, nil
}
