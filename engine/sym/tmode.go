package sym

// Mode T: skeleton packages are loaded natively; packages.Load is a stub that re-parses (through
// the INTERPRETED ParseFile hook of convergen) and re-type-checks the skeleton package per path,
// substituting notation slots (// :@S1@) by texts chosen from the skeleton's menus.

import (
	"bytes"
	"encoding/json"
	"fmt"
	"go/ast"
	"go/printer"
	"go/token"
	"go/types"
	"os"
	"path/filepath"
	"reflect"
	"sort"
	"strings"
	"sync"

	"golang.org/x/tools/go/packages"
	"golang.org/x/tools/go/ssa"

	"verif/engine/vrt"
)

type skInfo struct {
	dir     string
	pkgPath string
	name    string
	files   []string // compiled Go files under the convergen tag
	srcs    map[string][]byte
	imports map[string]*packages.Package
	typPkgs map[string]*types.Package
	slots   map[string][]string
	err     error
}

var (
	skMu    sync.Mutex
	skCache = map[string]*skInfo{}
)

type mapImporter map[string]*types.Package

func (m mapImporter) Import(path string) (*types.Package, error) {
	if p, ok := m[path]; ok {
		return p, nil
	}
	return nil, fmt.Errorf("package %q not loaded for the skeleton", path)
}

func loadSkeleton(dir string) *skInfo {
	skMu.Lock()
	defer skMu.Unlock()
	if si, ok := skCache[dir]; ok {
		return si
	}
	si := &skInfo{dir: dir, srcs: map[string][]byte{}, imports: map[string]*packages.Package{}, typPkgs: map[string]*types.Package{}, slots: map[string][]string{}}
	skCache[dir] = si
	cfg := &packages.Config{
		Mode: packages.NeedName | packages.NeedFiles | packages.NeedCompiledGoFiles | packages.NeedImports | packages.NeedDeps |
			packages.NeedTypes | packages.NeedSyntax | packages.NeedTypesInfo,
		Dir:        dir,
		BuildFlags: []string{"-tags", "convergen"},
		Env:        append(os.Environ(), "GOFLAGS=-mod=mod", "GOPROXY=off", "GOSUMDB=off", "GOTOOLCHAIN=local"),
	}
	pkgs, err := packages.Load(cfg, ".")
	if err != nil || len(pkgs) == 0 {
		si.err = fmt.Errorf("skeleton load %s: %v", dir, err)
		return si
	}
	p := pkgs[0]
	si.pkgPath, si.name = p.PkgPath, p.Name
	si.files = append(si.files, p.CompiledGoFiles...)
	sort.Strings(si.files)
	for _, f := range si.files {
		b, err := os.ReadFile(f)
		if err != nil {
			si.err = err
			return si
		}
		si.srcs[f] = b
	}
	var visit func(q *packages.Package)
	visit = func(q *packages.Package) {
		for path, ip := range q.Imports {
			if _, ok := si.typPkgs[path]; !ok {
				si.typPkgs[path] = ip.Types
				visit(ip)
			}
		}
	}
	visit(p)
	for path, ip := range p.Imports {
		si.imports[path] = ip
	}
	if b, err := os.ReadFile(filepath.Join(dir, "slots.json")); err == nil {
		if err := json.Unmarshal(b, &si.slots); err != nil {
			si.err = fmt.Errorf("slots.json: %v", err)
		}
	}
	return si
}

// SubstituteSlotsForModel materialises a skeleton source with the slot choices of a model.
func SubstituteSlotsForModel(src []byte, slots map[string][]string, model map[string]interface{}) []byte {
	return vrt.SubstituteSlots(src, slots, func(slot string, n int) int {
		k := 0
		switch v := model["slot."+slot].(type) {
		case float64:
			k = int(v)
		case int64:
			k = int(v)
		case int:
			k = v
		}
		if k < 0 || k >= n {
			k = 0
		}
		return k
	})
}

// LoadSlots reads the slot menus of a skeleton directory.
func LoadSlots(dir string) map[string][]string { return vrt.LoadSlots(dir) }

// slotChoice forks over the menu of a slot once per path (input slot.<name>).
func (r *Run) slotChoice(slot string, n int) int {
	key := "slotchoice:" + slot
	if v, ok := r.Env[key]; ok {
		return v.(int)
	}
	iv := r.newInput("slot."+slot, SInt)
	conds := make([]*Term, n)
	for i := range conds {
		conds[i] = Eq(iv, IntT(int64(i)))
	}
	k := r.decide(conds)
	r.Env[key] = k
	return k
}

func structField(r *Run, st structure, t types.Type, name string) value {
	s := t.Underlying().(*types.Struct)
	for i := 0; i < s.NumFields(); i++ {
		if s.Field(i).Name() == name {
			return st[i]
		}
	}
	panic(unsupported("no field " + name))
}

// reversedV is what sort.Reverse returns (see the sort.Sort stub).
type reversedV struct{ x value }

var tcMemoMu sync.Mutex
var tcMemo = map[string]string{}

func LayoutStubs(st map[string]StubFn) {
	// sort.Slice / sort.SliceStable over an interpreter slice with an interpreted less function
	// (insertion sort: stable; comparisons on symbolic positions fork through the solver)
	sorter := func(r *Run, fr *frame, fn *ssa.Function, a []value) value {
		iv, ok := a[0].(iface)
		if !ok {
			panic(unsupported("sort.Slice on non-interface"))
		}
		sl, ok := iv.v.([]value)
		if !ok {
			panic(unsupported("sort.Slice on a native slice"))
		}
		for i := 1; i < len(sl); i++ {
			for j := i; j > 0 && r.branch(r.call(fr, fr.callpos, a[1], []value{j, j - 1})); j-- {
				sl[j], sl[j-1] = sl[j-1], sl[j]
			}
		}
		return nil
	}
	st["sort.SliceStable"] = sorter
	st["sort.Slice"] = sorter
	// sort.Sort / sort.Stable on a sort.StringSlice / sort.IntSlice of concrete elements, also
	// wrapped in sort.Reverse (any other sort.Interface is refused)
	st["sort.Reverse"] = func(r *Run, fr *frame, fn *ssa.Function, a []value) value {
		return iface{v: reversedV{a[0]}}
	}
	sortIface := func(r *Run, fr *frame, fn *ssa.Function, a []value) value {
		v := a[0]
		desc := false
		for {
			if iv, ok := v.(iface); ok {
				if rv, ok := iv.v.(reversedV); ok {
					desc = !desc
					v = rv.x
					continue
				}
				if iv.t == nil || (iv.t.String() != "sort.StringSlice" && iv.t.String() != "sort.IntSlice") {
					panic(unsupported("sort.Sort on " + fmt.Sprint(iv.t)))
				}
				v = iv.v
				continue
			}
			break
		}
		sl, ok := v.([]value)
		if !ok {
			panic(unsupported("sort.Sort on a non-slice"))
		}
		less := func(x, y value) bool {
			switch p := x.(type) {
			case string:
				q, ok := y.(string)
				if !ok {
					panic(unsupported("sort.Sort on symbolic elements"))
				}
				return p < q
			case int:
				q, ok := y.(int)
				if !ok {
					panic(unsupported("sort.Sort on symbolic elements"))
				}
				return p < q
			}
			panic(unsupported("sort.Sort on symbolic elements"))
		}
		sort.SliceStable(sl, func(i, j int) bool {
			if desc {
				return less(sl[j], sl[i])
			}
			return less(sl[i], sl[j])
		})
		return nil
	}
	st["sort.Sort"] = sortIface
	st["sort.Stable"] = sortIface
	st["go/printer.Fprint"] = func(r *Run, fr *frame, fn *ssa.Function, a []value) value {
		if r.Env["printer"] == "fail" {
			r.Effects = append(r.Effects, Effect{Op: "printer.Fprint"})
			return r.newError("<printer stopped by the harness>")
		}
		// a concrete (native) syntax tree: printed by the real go/printer, the text is appended to
		// the interpreter-side buffer
		fsetV, ok1 := a[1].(nativeV)
		nodeI, ok2 := a[2].(iface)
		w, ok3 := a[0].(iface)
		if ok1 && ok2 && ok3 {
			if nodeV, ok := nodeI.v.(nativeV); ok {
				if wp, ok := w.v.(*value); ok {
					if _, isStruct := (*wp).(structure); isStruct && w.t != nil && strings.HasSuffix(w.t.String(), "bytes.Buffer") {
						var buf bytes.Buffer
						err := printer.Fprint(&buf, exported(fsetV.rv).Interface().(*token.FileSet), exported(nodeV.rv).Interface())
						if err != nil {
							return r.newError(err.Error())
						}
						s := builderSlot(wp, 0)
						*s = concatV(slotStr(s), buf.String())
						return iface{}
					}
				}
			}
		}
		panic(unsupported("go/printer.Fprint (library internals are outside the encoder)"))
	}
	st["github.com/reedom/convergen/pkg/util.ToAstNode"] = func(r *Run, fr *frame, fn *ssa.Function, a []value) value {
		obj, ok := a[1].(iface)
		if !ok || obj.isNil() {
			return passThrough{}
		}
		nv, ok := obj.v.(nativeV)
		if !ok {
			return passThrough{}
		}
		name := exported(nv.rv).MethodByName("Name").Call(nil)[0].String()
		if p, ok := r.Env["astpath:"+name]; ok {
			return tuple{p, true}
		}
		return passThrough{}
	}
}

func TModeStubs(st map[string]StubFn) {
	st[vrtPkg+"TypeCheckFuncs"] = func(r *Run, fr *frame, fn *ssa.Function, a []value) value {
		sk, ok1 := a[0].(string)
		text, ok2 := a[1].(string)
		if !ok1 || !ok2 {
			panic(unsupported("TypeCheckFuncs on symbolic text"))
		}
		key := sk + "\x00" + text
		tcMemoMu.Lock()
		v, ok := tcMemo[key]
		tcMemoMu.Unlock()
		if ok {
			return v
		}
		dir := r.E.SkeletonRoot + "/" + sk
		si := loadSkeleton(dir)
		if si.err != nil {
			panic(unsupported(si.err.Error()))
		}
		v = vrt.SpliceAndCheck(dir, dir+"/setup.go", text, mapImporter(si.typPkgs))
		tcMemoMu.Lock()
		tcMemo[key] = v
		tcMemoMu.Unlock()
		return v
	}
	st[vrtPkg+"SlotText"] = func(r *Run, fr *frame, fn *ssa.Function, a []value) value {
		menu := loadSkeleton(r.E.SkeletonRoot + "/" + a[0].(string)).slots[a[1].(string)]
		if len(menu) == 0 {
			return ""
		}
		return vrt.InstantiateSlot(menu, r.slotChoice(a[1].(string), len(menu)), r.slotChoice)
	}
	st[vrtPkg+"SlotFamily"] = func(r *Run, fr *frame, fn *ssa.Function, a []value) value {
		return r.slotChoice("family", len(vrt.ToggleFamilies))
	}
	st["golang.org/x/tools/go/packages.Load"] = func(r *Run, fr *frame, fn *ssa.Function, a []value) value {
		cfgPtr, ok := a[0].(*value)
		if !ok || cfgPtr == nil {
			panic(unsupported("packages.Load with non-interpreter config"))
		}
		cfgT := mustDeref(fn.Signature.Params().At(0).Type())
		cfg := (*cfgPtr).(structure)
		patterns := variadic(a[1])
		if len(patterns) != 1 {
			panic(unsupported("packages.Load with several patterns"))
		}
		pat, ok := patterns[0].(string)
		if !ok || !strings.HasPrefix(pat, "file=") {
			panic(unsupported("packages.Load pattern " + toString(patterns[0])))
		}
		srcFile := strings.TrimPrefix(pat, "file=")
		if r.Env["load"] == "symbolic" {
			// the call itself is observable: the query and the directory the go command runs in
			r.Effects = append(r.Effects, Effect{Op: "load.call", Args: []value{pat, structField(r, cfg, cfgT, "Dir")}})
			return r.symbolicLoad(fr, fn, cfg, cfgT)
		}
		if v, ok := r.Env["load.err"]; ok && v == true {
			return tuple{[]value(nil), r.newError("go list failed")}
		}
		si := loadSkeleton(filepath.Dir(srcFile))
		if si.err != nil {
			panic(unsupported(si.err.Error()))
		}
		fsetV, _ := structField(r, cfg, cfgT, "Fset").(nativeV)
		fset, _ := exported(fsetV.rv).Interface().(*token.FileSet)
		if fset == nil {
			fset = token.NewFileSet()
			fsetV = nativeV{reflect.ValueOf(fset)}
		}
		parseFile := structField(r, cfg, cfgT, "ParseFile")
		var files []*ast.File
		var perrs []packages.Error
		for _, f := range si.files {
			src := si.srcs[f]
			if len(si.slots) > 0 {
				src = vrt.SubstituteSlots(src, si.slots, r.slotChoice)
			}
			res := r.call(fr, fr.callpos, parseFile, []value{fsetV, f, bytesVal(src)}).(tuple)
			if errv, _ := res[1].(iface); !errv.isNil() {
				perrs = append(perrs, packages.Error{Msg: toString(r.formatOne("%v", res[1])), Kind: packages.ParseError})
				continue
			}
			if nv, ok := res[0].(nativeV); ok && !nativeIsNil(nv) {
				files = append(files, exported(nv.rv).Interface().(*ast.File))
			}
		}
		info := &types.Info{
			Types:      map[ast.Expr]types.TypeAndValue{},
			Defs:       map[*ast.Ident]types.Object{},
			Uses:       map[*ast.Ident]types.Object{},
			Implicits:  map[ast.Node]types.Object{},
			Scopes:     map[ast.Node]*types.Scope{},
			Selections: map[*ast.SelectorExpr]*types.Selection{},
			Instances:  map[*ast.Ident]types.Instance{},
		}
		var terrs []packages.Error
		var typeErrs []types.Error
		tc := &types.Config{Importer: mapImporter(si.typPkgs), Error: func(err error) {
			// (as go/packages reports them: position and message apart; the structured errors in TypeErrors)
			if te, ok := err.(types.Error); ok {
				typeErrs = append(typeErrs, te)
				terrs = append(terrs, packages.Error{Pos: te.Fset.Position(te.Pos).String(), Msg: te.Msg, Kind: packages.TypeError})
				return
			}
			terrs = append(terrs, packages.Error{Msg: err.Error(), Kind: packages.TypeError})
		}}
		tpkg, _ := tc.Check(si.pkgPath, fset, files, info)
		pkg := &packages.Package{ID: si.pkgPath, Name: si.name, PkgPath: si.pkgPath, Fset: fset, Syntax: files,
			Types: tpkg, TypesInfo: info, Imports: si.imports, Errors: append(perrs, terrs...), TypeErrors: typeErrs, IllTyped: len(terrs) > 0}
		return tuple{nativeV{reflect.ValueOf([]*packages.Package{pkg})}, iface{}}
	}
	st["go/parser.ParseFile"] = func(r *Run, fr *frame, fn *ssa.Function, a []value) value {
		if r.Env["load"] == "symbolic" {
			// kernel mode (C12): the parser is environment; the call is recorded with the very
			// bytes it was handed and returns an arbitrary error or a fresh file object
			fromDisk := a[2].(iface).isNil()
			if fromDisk {
				// src == nil: the parser reads the named file itself
				r.Effects = append(r.Effects, Effect{Op: "ParseFileFromDisk", Args: []value{a[1], a[3]}})
			} else {
				r.Effects = append(r.Effects, Effect{Op: "ParseFile", Args: []value{a[1], bytesToStr(a[2].(iface).v), a[3]}})
			}
			errName := "parse.err(" + keyOf(a[1]) + ")"
			if fromDisk {
				errName = "parsedisk.err(" + keyOf(a[1]) + ")"
			}
			err := r.nondetErr(errName)
			if !err.(iface).isNil() {
				return tuple{(*value)(nil), err}
			}
			ft := mustDeref(fn.Signature.Results().At(0).Type())
			cell := new(value)
			*cell = zero(ft)
			st := (*cell).(structure)
			fs := ft.Underlying().(*types.Struct)
			for i := 0; i < fs.NumFields(); i++ {
				if fs.Field(i).Name() == "Package" {
					st[i] = 1 + len(r.Effects) // a position
				}
				if fs.Field(i).Name() == "Name" {
					it := mustDeref(fs.Field(i).Type())
					ic := new(value)
					*ic = zero(it)
					is := it.Underlying().(*types.Struct)
					for k := 0; k < is.NumFields(); k++ {
						if is.Field(k).Name() == "Name" {
							(*ic).(structure)[k] = "pkgname"
						}
					}
					st[i] = ic
				}
			}
			return tuple{cell, iface{}}
		}
		r.Effects = append(r.Effects, Effect{Op: "ParseFile", Args: []value{a[1], a[3]}})
		v, _ := r.callNativeFunc(fr, fn, a)
		return v
	}
}

// bytesVal converts a native []byte into an interpreter []byte value.
func bytesVal(b []byte) value {
	return nativeV{reflect.ValueOf(b)}
}

// symbolicLoad: packages.Load in kernel mode (C12). The loader hands the files named by the
// harness (SetEnv load.files = n, load.file.<i> = name, load.content.<i> = bytes) to convergen's
// real ParseFile hook and returns an arbitrary error, no package, or one package whose
// Errors / IllTyped fields are arbitrary.
func (r *Run) symbolicLoad(fr *frame, fn *ssa.Function, cfg structure, cfgT types.Type) value {
	parseFile := structField(r, cfg, cfgT, "ParseFile")
	fsetV := structField(r, cfg, cfgT, "Fset")
	// the overlay handed to the loader is part of the observable call: one effect per entry
	if ov, ok := structField(r, cfg, cfgT, "Overlay").(*mapV); ok && ov != nil {
		for _, e := range ov.entries {
			r.Effects = append(r.Effects, Effect{Op: "load.overlay", Args: []value{e.k, bytesToStr(e.v)}})
		}
	}
	n := 0
	if v, ok := r.Env["load.files"]; ok {
		n = int(asInt64(v))
	}
	for i := 0; i < n; i++ {
		name := r.Env[fmt.Sprintf("load.file.%d", i)]
		content := r.Env[fmt.Sprintf("load.content.%d", i)]
		res := r.call(fr, fr.callpos, parseFile, []value{fsetV, name, symBytes{content}}).(tuple)
		r.Effects = append(r.Effects, Effect{Op: "hook-returned", Args: []value{name, !isNilResult(res[0]), !res[1].(iface).isNil()}})
	}
	err := r.nondetErr("load.err")
	if !err.(iface).isNil() {
		return tuple{[]value(nil), err}
	}
	if !r.branch(r.newInput("load.haspkg", SBool)) {
		return tuple{[]value{}, iface{}}
	}
	// one package; its error lists are arbitrary
	pt := mustDeref(fn.Signature.Results().At(0).Type().Underlying().(*types.Slice).Elem())
	cell := new(value)
	*cell = zero(pt)
	st := (*cell).(structure)
	ps := pt.Underlying().(*types.Struct)
	for i := 0; i < ps.NumFields(); i++ {
		switch ps.Field(i).Name() {
		case "IllTyped":
			st[i] = r.newInput("pkg.IllTyped", SBool)
		case "Errors", "TypeErrors":
			if r.branch(r.newInput("pkg."+ps.Field(i).Name()+".nonempty", SBool)) {
				et := ps.Field(i).Type().Underlying().(*types.Slice).Elem()
				ev := zero(et)
				if es, ok := et.Underlying().(*types.Struct); ok {
					for k := 0; k < es.NumFields(); k++ {
						if es.Field(k).Name() == "Kind" {
							kv := r.newInput("pkg."+ps.Field(i).Name()+".Kind", SInt)
							r.assume(And(Le(IntT(0), kv), Le(kv, IntT(3))))
							ev.(structure)[k] = kv
						}
					}
				}
				st[i] = []value{ev}
			}
		}
	}
	return tuple{[]value{cell}, iface{}}
}

func isNilResult(v value) bool {
	switch x := v.(type) {
	case *value:
		return x == nil
	case nativeV:
		return nativeIsNil(x)
	case iface:
		return x.isNil()
	}
	return false
}
