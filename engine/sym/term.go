package sym

// SMT term DAG: hash-consed, lightly normalised, printed as SMT-LIB2.

import (
	"fmt"
	"sort"
	"strconv"
	"strings"
	"sync"
)

type Sort int

const (
	SBool Sort = iota
	SInt
	SStr
	SOpaque // uninterpreted sort "U" (floats, opaque leaves)
)

func (s Sort) String() string {
	switch s {
	case SBool:
		return "Bool"
	case SInt:
		return "Int"
	case SStr:
		return "String"
	default:
		return "U"
	}
}

// Term is an immutable SMT term. Terms are interned: pointer equality == structural equality.
type Term struct {
	Op   string // "const" (literal), "var", or an SMT operator / uninterpreted function name
	Sort Sort
	Args []*Term
	// literal payloads
	B    bool
	I    int64
	S    string
	Name string // for var / uf
	key  string
}

var (
	internMu sync.Mutex
	interned = map[string]*Term{}
)

func intern(t *Term) *Term {
	var sb strings.Builder
	sb.WriteString(t.Op)
	sb.WriteByte('|')
	sb.WriteString(strconv.Itoa(int(t.Sort)))
	sb.WriteByte('|')
	switch t.Op {
	case "const":
		switch t.Sort {
		case SBool:
			sb.WriteString(strconv.FormatBool(t.B))
		case SInt:
			sb.WriteString(strconv.FormatInt(t.I, 10))
		default:
			sb.WriteString(strconv.Quote(t.S))
		}
	case "var", "uf":
		sb.WriteString(t.Name)
	}
	for _, a := range t.Args {
		sb.WriteByte(',')
		sb.WriteString(fmt.Sprintf("%p", a))
	}
	k := sb.String()
	internMu.Lock()
	defer internMu.Unlock()
	if x, ok := interned[k]; ok {
		return x
	}
	t.key = k
	interned[k] = t
	return t
}

func (t *Term) IsConst() bool { return t.Op == "const" }

var (
	TTrue  = intern(&Term{Op: "const", Sort: SBool, B: true})
	TFalse = intern(&Term{Op: "const", Sort: SBool, B: false})
)

func BoolT(b bool) *Term {
	if b {
		return TTrue
	}
	return TFalse
}
func IntT(i int64) *Term  { return intern(&Term{Op: "const", Sort: SInt, I: i}) }
func StrT(s string) *Term { return intern(&Term{Op: "const", Sort: SStr, S: s}) }

func Var(name string, s Sort) *Term { return intern(&Term{Op: "var", Sort: s, Name: name}) }

// UF applies an uninterpreted function.
func UF(name string, s Sort, args ...*Term) *Term {
	return intern(&Term{Op: "uf", Sort: s, Name: name, Args: args})
}

func mk(op string, s Sort, args ...*Term) *Term {
	return intern(&Term{Op: op, Sort: s, Args: args})
}

func Not(a *Term) *Term {
	if a.IsConst() {
		return BoolT(!a.B)
	}
	if a.Op == "not" {
		return a.Args[0]
	}
	return mk("not", SBool, a)
}

func And(xs ...*Term) *Term {
	var out []*Term
	seen := map[*Term]bool{}
	for _, x := range xs {
		if x.IsConst() {
			if !x.B {
				return TFalse
			}
			continue
		}
		if x.Op == "and" {
			for _, y := range x.Args {
				if !seen[y] {
					seen[y] = true
					out = append(out, y)
				}
			}
			continue
		}
		if !seen[x] {
			seen[x] = true
			out = append(out, x)
		}
	}
	for _, x := range out {
		if seen[Not(x)] {
			return TFalse
		}
	}
	switch len(out) {
	case 0:
		return TTrue
	case 1:
		return out[0]
	}
	return mk("and", SBool, out...)
}

func Or(xs ...*Term) *Term {
	var out []*Term
	seen := map[*Term]bool{}
	for _, x := range xs {
		if x.IsConst() {
			if x.B {
				return TTrue
			}
			continue
		}
		if x.Op == "or" {
			for _, y := range x.Args {
				if !seen[y] {
					seen[y] = true
					out = append(out, y)
				}
			}
			continue
		}
		if !seen[x] {
			seen[x] = true
			out = append(out, x)
		}
	}
	for _, x := range out {
		if seen[Not(x)] {
			return TTrue
		}
	}
	switch len(out) {
	case 0:
		return TFalse
	case 1:
		return out[0]
	}
	return mk("or", SBool, out...)
}

func Implies(a, b *Term) *Term { return Or(Not(a), b) }

func Ite(c, a, b *Term) *Term {
	if c.IsConst() {
		if c.B {
			return a
		}
		return b
	}
	if a == b {
		return a
	}
	if a.Sort == SBool {
		if a == TTrue && b == TFalse {
			return c
		}
		if a == TFalse && b == TTrue {
			return Not(c)
		}
	}
	return mk("ite", a.Sort, c, a, b)
}

func Eq(a, b *Term) *Term {
	if a == b {
		return TTrue
	}
	if a.Sort != b.Sort {
		panic(fmt.Sprintf("Eq: sort mismatch %v %v (%s vs %s)", a.Sort, b.Sort, a, b))
	}
	if a.IsConst() && b.IsConst() {
		switch a.Sort {
		case SBool:
			return BoolT(a.B == b.B)
		case SInt:
			return BoolT(a.I == b.I)
		case SStr:
			return BoolT(a.S == b.S)
		}
	}
	if a.Sort == SBool {
		if a.IsConst() {
			a, b = b, a
		}
		if b.IsConst() {
			if b.B {
				return a
			}
			return Not(a)
		}
	}
	if a.Sort == SStr {
		// cheap syntactic refutation: constant prefix/suffix mismatch of flattened concatenations
		if r, ok := strEqQuick(a, b); ok {
			return BoolT(r)
		}
	}
	// canonical order
	if a.key > b.key {
		a, b = b, a
	}
	return mk("=", SBool, a, b)
}

// strEqQuick decides equality of two string terms when their constant prefixes
// disagree or one is constant and shorter than the other's constant parts.
func strEqQuick(a, b *Term) (bool, bool) {
	pa, pb := constPrefix(a), constPrefix(b)
	n := len(pa)
	if len(pb) < n {
		n = len(pb)
	}
	if pa[:n] != pb[:n] {
		return false, true
	}
	sa, sb := constSuffix(a), constSuffix(b)
	n = len(sa)
	if len(sb) < n {
		n = len(sb)
	}
	if sa[len(sa)-n:] != sb[len(sb)-n:] {
		return false, true
	}
	if a.IsConst() && minLen(b) > len(a.S) {
		return false, true
	}
	if b.IsConst() && minLen(a) > len(b.S) {
		return false, true
	}
	return false, false
}

func constPrefix(t *Term) string {
	if t.IsConst() {
		return t.S
	}
	if t.Op == "str.++" && t.Args[0].IsConst() {
		return t.Args[0].S
	}
	return ""
}
func constSuffix(t *Term) string {
	if t.IsConst() {
		return t.S
	}
	if t.Op == "str.++" && t.Args[len(t.Args)-1].IsConst() {
		return t.Args[len(t.Args)-1].S
	}
	return ""
}
func minLen(t *Term) int {
	if t.IsConst() {
		return len(t.S)
	}
	if t.Op == "str.++" {
		n := 0
		for _, a := range t.Args {
			n += minLen(a)
		}
		return n
	}
	return 0
}

func Concat(xs ...*Term) *Term {
	var out []*Term
	for _, x := range xs {
		if x.Sort != SStr {
			panic("Concat of non-string")
		}
		if x.Op == "str.++" {
			for _, y := range x.Args {
				out = appendStr(out, y)
			}
		} else {
			out = appendStr(out, x)
		}
	}
	switch len(out) {
	case 0:
		return StrT("")
	case 1:
		return out[0]
	}
	return mk("str.++", SStr, out...)
}

func appendStr(out []*Term, y *Term) []*Term {
	if y.IsConst() {
		if y.S == "" {
			return out
		}
		if n := len(out); n > 0 && out[n-1].IsConst() {
			out[n-1] = StrT(out[n-1].S + y.S)
			return out
		}
	}
	return append(out, y)
}

func StrLen(a *Term) *Term {
	if a.IsConst() {
		return IntT(int64(len(a.S)))
	}
	if a.Op == "str.++" {
		var parts []*Term
		for _, x := range a.Args {
			parts = append(parts, StrLen(x))
		}
		return Add(parts...)
	}
	return mk("str.len", SInt, a)
}

func Add(xs ...*Term) *Term {
	var c int64
	var out []*Term
	for _, x := range xs {
		if x.IsConst() {
			c += x.I
			continue
		}
		if x.Op == "+" {
			for _, y := range x.Args {
				if y.IsConst() {
					c += y.I
				} else {
					out = append(out, y)
				}
			}
			continue
		}
		out = append(out, x)
	}
	if len(out) == 0 {
		return IntT(c)
	}
	sort.SliceStable(out, func(i, j int) bool { return out[i].key < out[j].key })
	if c != 0 {
		out = append(out, IntT(c))
	}
	if len(out) == 1 {
		return out[0]
	}
	return mk("+", SInt, out...)
}

func Neg(a *Term) *Term {
	if a.IsConst() {
		return IntT(-a.I)
	}
	return mk("-", SInt, a)
}

func Sub(a, b *Term) *Term {
	if a.IsConst() && b.IsConst() {
		return IntT(a.I - b.I)
	}
	if b.IsConst() {
		return Add(a, IntT(-b.I))
	}
	if a == b {
		return IntT(0)
	}
	return mk("-", SInt, a, b)
}

func Mul(a, b *Term) *Term {
	if a.IsConst() && b.IsConst() {
		return IntT(a.I * b.I)
	}
	if a.IsConst() {
		a, b = b, a
	}
	if b.IsConst() {
		if b.I == 0 {
			return IntT(0)
		}
		if b.I == 1 {
			return a
		}
	}
	return mk("*", SInt, a, b)
}

func Lt(a, b *Term) *Term {
	if a.IsConst() && b.IsConst() {
		return BoolT(a.I < b.I)
	}
	if a == b {
		return TFalse
	}
	if lo, ok := lowerBound(a); ok && b.IsConst() && lo >= b.I {
		return TFalse
	}
	if lo, ok := lowerBound(b); ok && a.IsConst() && a.I < lo {
		return TTrue
	}
	return mk("<", SBool, a, b)
}
func Le(a, b *Term) *Term {
	if a.IsConst() && b.IsConst() {
		return BoolT(a.I <= b.I)
	}
	if a == b {
		return TTrue
	}
	if lo, ok := lowerBound(b); ok && a.IsConst() && a.I <= lo {
		return TTrue
	}
	return Not(Lt(b, a))
}

// lowerBound returns a syntactic lower bound for length-like terms.
func lowerBound(t *Term) (int64, bool) {
	switch t.Op {
	case "const":
		return t.I, true
	case "str.len":
		return 0, true
	case "+":
		var s int64
		for _, a := range t.Args {
			lo, ok := lowerBound(a)
			if !ok {
				return 0, false
			}
			s += lo
		}
		return s, true
	}
	return 0, false
}

func Substr(s, off, n *Term) *Term {
	if s.IsConst() && off.IsConst() && n.IsConst() {
		o, l := off.I, n.I
		if o < 0 || o > int64(len(s.S)) || l <= 0 {
			return StrT("")
		}
		if o+l > int64(len(s.S)) {
			l = int64(len(s.S)) - o
		}
		return StrT(s.S[o : o+l])
	}
	if off.IsConst() && off.I == 0 && n == StrLen(s) {
		return s
	}
	return mk("str.substr", SStr, s, off, n)
}

func StrAt(s, i *Term) *Term { return Substr(s, i, IntT(1)) }

func ToCode(s *Term) *Term {
	if s.IsConst() {
		if len(s.S) == 1 {
			return IntT(int64(s.S[0]))
		}
		return IntT(-1)
	}
	if s.Op == "str.from_code" {
		// valid for 0 <= c < 196608; callers guarantee range
		return s.Args[0]
	}
	return mk("str.to_code", SInt, s)
}

func FromCode(c *Term) *Term {
	if c.IsConst() && c.I >= 0 && c.I < 128 {
		return StrT(string(rune(c.I)))
	}
	return mk("str.from_code", SStr, c)
}

func PrefixOf(p, s *Term) *Term {
	if p.IsConst() && p.S == "" {
		return TTrue
	}
	if p.IsConst() && s.IsConst() {
		return BoolT(strings.HasPrefix(s.S, p.S))
	}
	if p.IsConst() {
		cp := constPrefix(s)
		if len(cp) >= len(p.S) {
			return BoolT(strings.HasPrefix(cp, p.S))
		}
		if !strings.HasPrefix(p.S, cp) {
			return TFalse
		}
	}
	return mk("str.prefixof", SBool, p, s)
}
func SuffixOf(p, s *Term) *Term {
	if p.IsConst() && p.S == "" {
		return TTrue
	}
	if p.IsConst() && s.IsConst() {
		return BoolT(strings.HasSuffix(s.S, p.S))
	}
	if p.IsConst() {
		cs := constSuffix(s)
		if len(cs) >= len(p.S) {
			return BoolT(strings.HasSuffix(cs, p.S))
		}
		if !strings.HasSuffix(p.S, cs) {
			return TFalse
		}
	}
	return mk("str.suffixof", SBool, p, s)
}
func Contains(s, sub *Term) *Term {
	if sub.IsConst() && sub.S == "" {
		return TTrue
	}
	if s.IsConst() && sub.IsConst() {
		return BoolT(strings.Contains(s.S, sub.S))
	}
	return mk("str.contains", SBool, s, sub)
}
func IndexOf(s, sub, from *Term) *Term {
	if s.IsConst() && sub.IsConst() && from.IsConst() && from.I == 0 {
		return IntT(int64(strings.Index(s.S, sub.S)))
	}
	return mk("str.indexof", SInt, s, sub, from)
}
func Replace(s, old, nw *Term) *Term {
	if s.IsConst() && old.IsConst() && nw.IsConst() {
		return StrT(strings.Replace(s.S, old.S, nw.S, 1))
	}
	return mk("str.replace", SStr, s, old, nw)
}
func FromInt(i *Term) *Term {
	if i.IsConst() {
		if i.I < 0 {
			return StrT("") // SMT semantics; callers handle negatives separately
		}
		return StrT(strconv.FormatInt(i.I, 10))
	}
	return mk("str.from_int", SStr, i)
}

// ---------------------------------------------------------------- printing

func smtString(s string) string {
	var sb strings.Builder
	sb.WriteByte('"')
	for _, b := range []byte(s) {
		switch {
		case b == '"':
			sb.WriteString(`""`)
		case b == '\\' || b < 32 || b > 126:
			fmt.Fprintf(&sb, `\u{%x}`, b)
		default:
			sb.WriteByte(b)
		}
	}
	sb.WriteByte('"')
	return sb.String()
}

func smtInt(i int64) string {
	if i < 0 {
		return "(- " + strconv.FormatUint(uint64(-i), 10) + ")"
	}
	return strconv.FormatInt(i, 10)
}

func smtName(n string) string { return "|" + strings.ReplaceAll(n, "|", "!") + "|" }

func (t *Term) String() string {
	var sb strings.Builder
	t.write(&sb)
	return sb.String()
}

func (t *Term) write(sb *strings.Builder) {
	switch t.Op {
	case "const":
		switch t.Sort {
		case SBool:
			sb.WriteString(strconv.FormatBool(t.B))
		case SInt:
			sb.WriteString(smtInt(t.I))
		case SStr:
			sb.WriteString(smtString(t.S))
		default:
			sb.WriteString(smtName("u!" + t.S))
		}
	case "var":
		sb.WriteString(smtName(t.Name))
	case "uf":
		if len(t.Args) == 0 {
			sb.WriteString(smtName(t.Name))
			return
		}
		sb.WriteByte('(')
		sb.WriteString(smtName(t.Name))
		for _, a := range t.Args {
			sb.WriteByte(' ')
			a.write(sb)
		}
		sb.WriteByte(')')
	default:
		sb.WriteByte('(')
		sb.WriteString(t.Op)
		for _, a := range t.Args {
			sb.WriteByte(' ')
			a.write(sb)
		}
		sb.WriteByte(')')
	}
}

// collectDecls gathers variables and uninterpreted functions of t (deduplicated in seen).
func collectDecls(t *Term, seen map[*Term]bool, out *[]*Term) {
	if seen[t] {
		return
	}
	seen[t] = true
	for _, a := range t.Args {
		collectDecls(a, seen, out)
	}
	if t.Op == "var" || t.Op == "uf" || (t.Op == "const" && t.Sort == SOpaque) {
		*out = append(*out, t)
	}
}

// Vars returns the names of the variables occurring in t.
func Vars(t *Term) map[string]bool {
	m := map[string]bool{}
	var ds []*Term
	collectDecls(t, map[*Term]bool{}, &ds)
	for _, d := range ds {
		if d.Op == "var" {
			m[d.Name] = true
		}
	}
	return m
}
