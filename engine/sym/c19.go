package sym

// C19 machinery: the alphabet Sigma, case tables generated from Go's unicode package, and
// symbolic simulation of regexp/syntax programs (Thompson NFA) over rune vectors.

import (
	"fmt"
	"regexp"
	"regexp/syntax"
	"sort"
	"strings"
	"sync"
	"unicode"
)

var (
	sigmaOnce sync.Once
	sigma     []rune
	lowerTab  = map[rune]rune{}
	upperTab  = map[rune]rune{}
	foldTab   = map[rune]rune{} // canonical representative (minimum) of the SimpleFold orbit
)

func orbit(c rune) []rune {
	o := []rune{c}
	for r := unicode.SimpleFold(c); r != c; r = unicode.SimpleFold(r) {
		o = append(o, r)
	}
	return o
}

// ExtraSigma lets the driver add catalogue-derived code points (class boundaries) before first use.
var ExtraSigma []rune

// Sigma returns the finite alphabet: printable ASCII, newline/tab, every code point on which
// lower-casing and simple folding induce different equivalences (computed from Go's tables),
// a few ordinary non-ASCII letters, ExtraSigma; closed under ToLower/ToUpper/SimpleFold.
func Sigma() []rune {
	sigmaOnce.Do(func() {
		set := map[rune]bool{}
		for c := rune(32); c < 127; c++ {
			set[c] = true
		}
		set['\n'], set['\t'] = true, true
		for c := rune(0); c <= 0x1FFFF; c++ {
			o := orbit(c)
			if len(o) == 1 && unicode.ToLower(c) == c && unicode.ToUpper(c) == c {
				continue
			}
			ls := map[rune]bool{}
			for _, x := range o {
				ls[unicode.ToLower(x)] = true
			}
			inOrbit := func(x rune) bool {
				for _, y := range o {
					if y == x {
						return true
					}
				}
				return false
			}
			if len(ls) > 1 || !inOrbit(unicode.ToLower(c)) || !inOrbit(unicode.ToUpper(c)) {
				for _, x := range o {
					set[x] = true
				}
				set[unicode.ToLower(c)] = true
				set[unicode.ToUpper(c)] = true
			}
		}
		for _, c := range []rune{'é', 'É', 'ж', 'Ж', 'ß', '世', 0x0131, 0x0130, 0x212A, 0x017F, 0x03C2, 0x03C3, 0x03A3} {
			set[c] = true
		}
		for _, c := range ExtraSigma {
			if c >= 0 && c <= unicode.MaxRune {
				set[c] = true
			}
		}
		// closure
		for changed := true; changed; {
			changed = false
			for c := range set {
				for _, x := range append(orbit(c), unicode.ToLower(c), unicode.ToUpper(c)) {
					if !set[x] {
						set[x] = true
						changed = true
					}
				}
			}
		}
		for c := range set {
			sigma = append(sigma, c)
		}
		sort.Slice(sigma, func(i, j int) bool { return sigma[i] < sigma[j] })
		for _, c := range sigma {
			lowerTab[c] = unicode.ToLower(c)
			upperTab[c] = unicode.ToUpper(c)
			m := c
			for _, x := range orbit(c) {
				if x < m {
					m = x
				}
			}
			foldTab[c] = m
		}
	})
	return sigma
}

// PredefinedFuns are defined in the solver prelude (define-fun), not declared.
var PredefinedFuns = map[string]bool{}

func tableFun(name string, tab map[rune]rune) string {
	var sb strings.Builder
	fmt.Fprintf(&sb, "(define-fun %s ((c Int)) Int ", smtName(name))
	n := 0
	for _, c := range Sigma() {
		if tab[c] != c {
			fmt.Fprintf(&sb, "(ite (= c %d) %d ", c, tab[c])
			n++
		}
	}
	sb.WriteString("c")
	sb.WriteString(strings.Repeat(")", n))
	sb.WriteString(")")
	return sb.String()
}

// C19Prelude returns the define-funs for lower / upper / foldcanon restricted to Sigma.
func C19Prelude() string {
	PredefinedFuns["lower"], PredefinedFuns["upper"], PredefinedFuns["foldc"] = true, true, true
	return tableFun("lower", lowerTab) + "\n" + tableFun("upper", upperTab) + "\n" + tableFun("foldc", foldTab)
}

func inSigma(c *Term) *Term {
	s := Sigma()
	var alts []*Term
	for i := 0; i < len(s); {
		j := i
		for j+1 < len(s) && s[j+1] == s[j]+1 {
			j++
		}
		if i == j {
			alts = append(alts, Eq(c, IntT(int64(s[i]))))
		} else {
			alts = append(alts, And(Le(IntT(int64(s[i])), c), Le(c, IntT(int64(s[j])))))
		}
		i = j + 1
	}
	return Or(alts...)
}

func applyTab(name string, tab map[rune]rune, c *Term) *Term {
	if c.IsConst() {
		if v, ok := tab[rune(c.I)]; ok {
			return IntT(int64(v))
		}
		switch name {
		case "lower":
			return IntT(int64(unicode.ToLower(rune(c.I))))
		case "upper":
			return IntT(int64(unicode.ToUpper(rune(c.I))))
		default:
			m := rune(c.I)
			for _, x := range orbit(rune(c.I)) {
				if x < m {
					m = x
				}
			}
			return IntT(int64(m))
		}
	}
	return UF(name, SInt, c)
}

func (r *Run) runesMap(s value, which string) value {
	v := toRunes(s)
	if v.bytes {
		// ASCII byte vectors (bytes 1..127): case mapping is bytewise
		v = runesV{v.cps, false}
	}
	tab := lowerTab
	if which == "upper" {
		tab = upperTab
	}
	Sigma()
	out := make([]*Term, len(v.cps))
	for i, c := range v.cps {
		out[i] = applyTab(which, tab, c)
	}
	return runesV{out, toRunes(s).bytes}.norm()
}

func (r *Run) runesEqualFold(a, b value) value {
	m := vecMode(a, b)
	x, y := vecOf(a, m), vecOf(b, m)
	if len(x.cps) != len(y.cps) {
		return false
	}
	Sigma()
	var cs []*Term
	for i := range x.cps {
		cs = append(cs, Eq(applyTab("foldc", foldTab, x.cps[i]), applyTab("foldc", foldTab, y.cps[i])))
	}
	return simplifyBool(And(cs...))
}

// ---------------------------------------------------------------- regexp programs

var (
	progMu    sync.Mutex
	progCache = map[string]*syntax.Prog{}
)

func progOf(expr string) *syntax.Prog {
	progMu.Lock()
	defer progMu.Unlock()
	if p, ok := progCache[expr]; ok {
		return p
	}
	re, err := syntax.Parse(expr, syntax.Perl)
	if err != nil {
		panic(unsupported("regexp/syntax.Parse: " + err.Error()))
	}
	p, err := syntax.Compile(re.Simplify())
	if err != nil {
		panic(unsupported("regexp/syntax.Compile: " + err.Error()))
	}
	progCache[expr] = p
	return p
}

func isWordTerm(c *Term) *Term {
	return Or(And(Le(IntT('0'), c), Le(c, IntT('9'))), And(Le(IntT('A'), c), Le(c, IntT('Z'))),
		And(Le(IntT('a'), c), Le(c, IntT('z'))), Eq(c, IntT('_')))
}

func runeCond(inst *syntax.Inst, c *Term) *Term {
	switch inst.Op {
	case syntax.InstRuneAny:
		return TTrue
	case syntax.InstRuneAnyNotNL:
		return Not(Eq(c, IntT('\n')))
	case syntax.InstRune1:
		return Eq(c, IntT(int64(inst.Rune[0])))
	case syntax.InstRune:
		rs := inst.Rune
		if len(rs) == 1 {
			r0 := rs[0]
			alts := []*Term{Eq(c, IntT(int64(r0)))}
			if syntax.Flags(inst.Arg)&syntax.FoldCase != 0 {
				for r1 := unicode.SimpleFold(r0); r1 != r0; r1 = unicode.SimpleFold(r1) {
					alts = append(alts, Eq(c, IntT(int64(r1))))
				}
			}
			return Or(alts...)
		}
		var alts []*Term
		for i := 0; i+1 < len(rs); i += 2 {
			if rs[i] == rs[i+1] {
				alts = append(alts, Eq(c, IntT(int64(rs[i]))))
			} else {
				alts = append(alts, And(Le(IntT(int64(rs[i])), c), Le(c, IntT(int64(rs[i+1])))))
			}
		}
		return Or(alts...)
	}
	panic(unsupported(fmt.Sprintf("regexp instruction %v", inst.Op)))
}

// nfaMatch: does the (unanchored) program match somewhere in the rune vector? Returns a Bool term.
func nfaMatch(prog *syntax.Prog, cps []*Term) *Term {
	n := len(cps)
	emptyCond := func(op syntax.EmptyOp, pos int) *Term {
		var cs []*Term
		before := func() *Term { // is there a word char before pos
			if pos == 0 {
				return TFalse
			}
			return isWordTerm(cps[pos-1])
		}
		after := func() *Term {
			if pos == n {
				return TFalse
			}
			return isWordTerm(cps[pos])
		}
		if op&syntax.EmptyBeginText != 0 {
			cs = append(cs, BoolT(pos == 0))
		}
		if op&syntax.EmptyEndText != 0 {
			cs = append(cs, BoolT(pos == n))
		}
		if op&syntax.EmptyBeginLine != 0 {
			if pos != 0 {
				cs = append(cs, Eq(cps[pos-1], IntT('\n')))
			}
		}
		if op&syntax.EmptyEndLine != 0 {
			if pos != n {
				cs = append(cs, Eq(cps[pos], IntT('\n')))
			}
		}
		if op&syntax.EmptyWordBoundary != 0 {
			cs = append(cs, Not(Eq(before(), after())))
		}
		if op&syntax.EmptyNoWordBoundary != 0 {
			cs = append(cs, Eq(before(), after()))
		}
		return And(cs...)
	}
	var add func(set map[uint32]*Term, pc uint32, cond *Term, pos int, visiting map[uint32]bool)
	add = func(set map[uint32]*Term, pc uint32, cond *Term, pos int, visiting map[uint32]bool) {
		if cond == TFalse || visiting[pc] {
			return
		}
		visiting[pc] = true
		defer delete(visiting, pc)
		inst := &prog.Inst[pc]
		switch inst.Op {
		case syntax.InstFail:
		case syntax.InstAlt, syntax.InstAltMatch:
			add(set, inst.Out, cond, pos, visiting)
			add(set, inst.Arg, cond, pos, visiting)
		case syntax.InstNop, syntax.InstCapture:
			add(set, inst.Out, cond, pos, visiting)
		case syntax.InstEmptyWidth:
			add(set, inst.Out, And(cond, emptyCond(syntax.EmptyOp(inst.Arg), pos)), pos, visiting)
		default:
			if old, ok := set[pc]; ok {
				set[pc] = Or(old, cond)
			} else {
				set[pc] = cond
			}
		}
	}
	matched := TFalse
	cur := map[uint32]*Term{}
	for i := 0; i <= n; i++ {
		add(cur, uint32(prog.Start), TTrue, i, map[uint32]bool{})
		var pcs []uint32
		for pc := range cur {
			pcs = append(pcs, pc)
		}
		sort.Slice(pcs, func(a, b int) bool { return pcs[a] < pcs[b] })
		for _, pc := range pcs {
			if prog.Inst[pc].Op == syntax.InstMatch {
				matched = Or(matched, cur[pc])
			}
		}
		if i == n {
			break
		}
		next := map[uint32]*Term{}
		for _, pc := range pcs {
			inst := &prog.Inst[pc]
			switch inst.Op {
			case syntax.InstRune, syntax.InstRune1, syntax.InstRuneAny, syntax.InstRuneAnyNotNL:
				add(next, inst.Out, And(cur[pc], runeCond(inst, cps[i])), i+1, map[uint32]bool{})
			}
		}
		cur = next
	}
	return matched
}

func (r *Run) dfaMatch(re *regexp.Regexp, s runesV) value {
	if s.bytes {
		s = runesV{s.cps, false} // ASCII bytes are code points
	}
	return simplifyBool(nfaMatch(progOf(re.String()), s.cps))
}

// RegexpMembership is the reference used by oracles: membership of a rune vector in expr.
func RegexpMembership(expr string, cps []*Term) *Term { return nfaMatch(progOf(expr), cps) }

func (r *Run) compileSymRegexp(e value) value {
	panic(unsupported("regexp.Compile of symbolic expression"))
}
func (r *Run) quoteMetaSym(s value) value { panic(unsupported("QuoteMeta of symbolic string")) }
func (r *Run) symRegexpMatch(fr *frame, so *symRegexp, subj value) value {
	panic(unsupported("symbolic regexp match"))
}
