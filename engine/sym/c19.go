package sym

import "regexp"

func (r *Run) runesMap(s value, which string) value       { panic(unsupported("case mapping of symbolic string")) }
func (r *Run) runesEqualFold(a, b value) value             { panic(unsupported("EqualFold of symbolic string")) }
func (r *Run) dfaMatch(re *regexp.Regexp, s runesV) value  { panic(unsupported("dfa match")) }
func (r *Run) compileSymRegexp(e value) value              { panic(unsupported("regexp.Compile of symbolic expression")) }
func (r *Run) quoteMetaSym(s value) value                  { panic(unsupported("QuoteMeta of symbolic string")) }
func (r *Run) symRegexpMatch(fr *frame, so *symRegexp, subj value) value {
	panic(unsupported("symbolic regexp match"))
}
