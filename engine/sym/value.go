package sym

// Interpreter values. Derived from golang.org/x/tools/go/ssa/interp (BSD licence),
// extended with symbolic scalars (*Term), rune vectors, association-list maps and
// reflect-wrapped native objects.
//
// Dynamic types of value:
//   bool, intN/uintN/floatN, string          concrete scalars
//   *Term                                     symbolic scalar (Bool / Int / String / opaque)
//   runesV                                    symbolic string as a vector of code points (C19)
//   symBytes                                  []byte with symbolic content (opaque byte string)
//   structure, array, []value, *value, *mapV, iface, tuple, *closure, *ssa.Function, *ssa.Builtin
//   nativeV                                   reflect-wrapped native Go object (go/types, go/ast, ...)
//   *absObj                                   abstract native (symbolic signature shapes)

import (
	"bytes"
	"fmt"
	"go/types"
	"reflect"
	"strings"

	"golang.org/x/tools/go/ssa"
)

type value interface{}

type tuple []value

type array []value

type iface struct {
	t types.Type // dynamic type; nil for a nil interface; may be nil with v a nativeV (type comes from reflect)
	v value
}

type structure []value

type closure struct {
	Fn  *ssa.Function
	Env []value
}

type bad struct{}

// runesV is a string whose content is a vector of symbolic code points of concrete length.
type runesV struct {
	cps   []*Term
	bytes bool // elements are bytes (exact Go byte semantics) rather than code points
}

// symBytes is a []byte whose content is the (possibly symbolic) string s.
type symBytes struct {
	s value // string or *Term(SStr)
}

type nativeV struct {
	rv reflect.Value
}

type iter interface {
	next(r *Run) tuple
}

func (v iface) isNil() bool { return v.t == nil && v.v == nil }

// ---------------------------------------------------------------- maps

type mapEntry struct {
	k, v value
}

// mapV is an insertion-ordered association list; keys may be symbolic.
type mapV struct {
	keyT, elemT types.Type
	entries     []mapEntry
}

// ---------------------------------------------------------------- helpers

func mustDeref(t types.Type) types.Type {
	if p, ok := t.Underlying().(*types.Pointer); ok {
		return p.Elem()
	}
	panic(fmt.Sprintf("mustDeref: not a pointer: %v", t))
}

func coreType(t types.Type) types.Type { return t.Underlying() }

func isSym(v value) bool {
	switch v.(type) {
	case *Term, runesV:
		return true
	}
	return false
}

// asTerm converts a scalar interpreter value into a term of the matching sort.
func asTerm(v value) *Term {
	switch x := v.(type) {
	case *Term:
		return x
	case bool:
		return BoolT(x)
	case string:
		return StrT(x)
	case int, int8, int16, int32, int64, uint, uint8, uint16, uint32, uint64, uintptr:
		return IntT(asInt64(x))
	}
	panic(unsupported(fmt.Sprintf("asTerm(%T)", v)))
}

// load returns the value of type T in *addr (deep copy of aggregates).
func load(T types.Type, addr *value) value {
	switch T := T.Underlying().(type) {
	case *types.Struct:
		v, ok := (*addr).(structure)
		if mv, moved := (*addr).(movedNative); moved {
			return nativeV{mv.ptr.rv.Elem()}
		}
		if !ok {
			return *addr // opaque payload stored in a struct slot (stubbed library types)
		}
		a := make(structure, len(v))
		for i := range a {
			if i < T.NumFields() {
				a[i] = load(T.Field(i).Type(), &v[i])
			} else {
				a[i] = v[i]
			}
		}
		return a
	case *types.Array:
		v := (*addr).(array)
		a := make(array, len(v))
		for i := range a {
			a[i] = load(T.Elem(), &v[i])
		}
		return a
	default:
		return *addr
	}
}

// store stores value v of type T into *addr.
func store(T types.Type, addr *value, v value) {
	switch T := T.Underlying().(type) {
	case *types.Struct:
		lhs, ok1 := (*addr).(structure)
		rhs, ok2 := v.(structure)
		if !ok1 || !ok2 {
			*addr = v
			return
		}
		for i := range lhs {
			if i < T.NumFields() {
				store(T.Field(i).Type(), &lhs[i], rhs[i])
			} else {
				lhs[i] = rhs[i]
			}
		}
	case *types.Array:
		lhs := (*addr).(array)
		rhs := v.(array)
		for i := range lhs {
			store(T.Elem(), &lhs[i], rhs[i])
		}
	default:
		*addr = v
	}
}

// copyVal deep-copies aggregates (value semantics) without type information.
func copyVal(v value) value {
	switch x := v.(type) {
	case structure:
		a := make(structure, len(x))
		for i := range x {
			a[i] = copyVal(x[i])
		}
		return a
	case array:
		a := make(array, len(x))
		for i := range x {
			a[i] = copyVal(x[i])
		}
		return a
	}
	return v
}

// ---------------------------------------------------------------- equality

// eqv returns x == y for type t as a bool or a *Term(Bool).
func (r *Run) eqv(t types.Type, x, y value) value {
	// nil comparisons of reference types
	switch t.Underlying().(type) {
	case *types.Map, *types.Signature, *types.Slice:
		return isNilRef(x) == isNilRef(y) && (isNilRef(x) || isNilRef(y))
	}
	if tx, ok := x.(*Term); ok {
		return simplifyBool(Eq(tx, coerceTerm(y, tx.Sort)))
	}
	if ty, ok := y.(*Term); ok {
		return simplifyBool(Eq(coerceTerm(x, ty.Sort), ty))
	}
	switch x := x.(type) {
	case runesV:
		return simplifyBool(runesEq(x, y))
	case string:
		if ry, ok := y.(runesV); ok {
			return simplifyBool(runesEq(ry, x))
		}
		return x == y.(string)
	case bool:
		return x == y.(bool)
	case int, int8, int16, int32, int64, uint, uint8, uint16, uint32, uint64, uintptr:
		return asInt64(x) == asInt64(y) && reflect.TypeOf(x) == reflect.TypeOf(y)
	case float32:
		return x == y.(float32)
	case float64:
		return x == y.(float64)
	case complex64:
		return x == y.(complex64)
	case complex128:
		return x == y.(complex128)
	case *value:
		if ny, ok := y.(nativeV); ok {
			return x == nil && nativeIsNil(ny)
		}
		return x == y.(*value)
	case nativeV:
		return nativeEq(x, y)
	case *absObj:
		yo, _ := y.(*absObj)
		return x == yo
	case structure:
		tS := t.Underlying().(*types.Struct)
		var acc value = true
		yv := y.(structure)
		for i, n := 0, tS.NumFields(); i < n; i++ {
			if f := tS.Field(i); f.Name() != "_" {
				acc = andV(acc, r.eqv(f.Type(), x[i], yv[i]))
			}
		}
		return acc
	case array:
		tE := t.Underlying().(*types.Array).Elem()
		var acc value = true
		yv := y.(array)
		for i := range x {
			acc = andV(acc, r.eqv(tE, x[i], yv[i]))
		}
		return acc
	case iface:
		yi := y.(iface)
		if x.isNil() || yi.isNil() {
			return x.isNil() && yi.isNil()
		}
		if nx, ok := x.v.(nativeV); ok {
			return nativeEq(nx, yi.v)
		}
		if _, ok := yi.v.(nativeV); ok {
			return false
		}
		if ax, ok := x.v.(*absObj); ok {
			ay, _ := yi.v.(*absObj)
			return ax == ay
		}
		if x.t == nil || yi.t == nil || !types.Identical(x.t, yi.t) {
			return false
		}
		return r.eqv(x.t, x.v, yi.v)
	case *ssa.Function:
		return x == nil && isNilRef(y)
	case *closure:
		return false
	}
	panic(unsupported(fmt.Sprintf("comparing %T (type %s)", x, t)))
}

func isNilRef(v value) bool {
	switch x := v.(type) {
	case *mapV:
		return x == nil
	case *ssa.Function:
		return x == nil
	case *closure:
		return x == nil
	case []value:
		return x == nil
	case symBytes:
		return false
	case nativeV:
		return nativeIsNil(x)
	case *absObj:
		return x == nil
	}
	panic(unsupported(fmt.Sprintf("isNilRef(%T)", v)))
}

func coerceTerm(v value, s Sort) *Term {
	if rv, ok := v.(runesV); ok {
		return runesToStr(rv)
	}
	return asTerm(v)
}

func simplifyBool(t *Term) value {
	if t.IsConst() {
		return t.B
	}
	return t
}

func andV(a, b value) value {
	if ab, ok := a.(bool); ok {
		if !ab {
			return false
		}
		return b
	}
	if bb, ok := b.(bool); ok {
		if !bb {
			return false
		}
		return a
	}
	return simplifyBool(And(a.(*Term), b.(*Term)))
}

func notV(a value) value {
	if ab, ok := a.(bool); ok {
		return !ab
	}
	return simplifyBool(Not(a.(*Term)))
}

// ---------------------------------------------------------------- printing

func writeValue(buf *bytes.Buffer, v value, depth int) {
	if depth > 6 {
		buf.WriteString("…")
		return
	}
	switch v := v.(type) {
	case nil, bool, int, int8, int16, int32, int64, uint, uint8, uint16, uint32, uint64, uintptr, float32, float64, complex64, complex128:
		fmt.Fprintf(buf, "%v", v)
	case string:
		fmt.Fprintf(buf, "%q", v)
	case *Term:
		buf.WriteString(v.String())
	case runesV:
		buf.WriteString("runes[")
		for i, c := range v.cps {
			if i > 0 {
				buf.WriteString(" ")
			}
			buf.WriteString(c.String())
		}
		buf.WriteString("]")
	case symBytes:
		buf.WriteString("bytes(")
		writeValue(buf, v.s, depth+1)
		buf.WriteString(")")
	case *mapV:
		buf.WriteString("map[")
		if v != nil {
			for i, e := range v.entries {
				if i > 0 {
					buf.WriteString(" ")
				}
				writeValue(buf, e.k, depth+1)
				buf.WriteString(":")
				writeValue(buf, e.v, depth+1)
			}
		}
		buf.WriteString("]")
	case *value:
		if v == nil {
			buf.WriteString("<nil>")
		} else {
			buf.WriteString("&")
			writeValue(buf, *v, depth+1)
		}
	case iface:
		if v.isNil() {
			buf.WriteString("<nil>")
			return
		}
		writeValue(buf, v.v, depth+1)
	case structure:
		buf.WriteString("{")
		for i, e := range v {
			if i > 0 {
				buf.WriteString(" ")
			}
			writeValue(buf, e, depth+1)
		}
		buf.WriteString("}")
	case array:
		buf.WriteString("[")
		for i, e := range v {
			if i > 0 {
				buf.WriteString(" ")
			}
			writeValue(buf, e, depth+1)
		}
		buf.WriteString("]")
	case []value:
		buf.WriteString("[")
		for i, e := range v {
			if i > 0 {
				buf.WriteString(" ")
			}
			writeValue(buf, e, depth+1)
		}
		buf.WriteString("]")
	case *ssa.Function:
		if v == nil {
			buf.WriteString("<nil func>")
		} else {
			buf.WriteString(v.String())
		}
	case *ssa.Builtin:
		buf.WriteString(v.Name())
	case *closure:
		buf.WriteString("closure:" + v.Fn.String())
	case tuple:
		buf.WriteString("(")
		for i, e := range v {
			if i > 0 {
				buf.WriteString(", ")
			}
			writeValue(buf, e, depth+1)
		}
		buf.WriteString(")")
	case nativeV:
		if !v.rv.IsValid() {
			buf.WriteString("native<invalid>")
		} else if v.rv.CanInterface() {
			s := fmt.Sprintf("%v", v.rv.Interface())
			if len(s) > 120 {
				s = s[:120] + "…"
			}
			fmt.Fprintf(buf, "native<%s %s>", v.rv.Type(), s)
		} else {
			fmt.Fprintf(buf, "native<%s>", v.rv.Type())
		}
	case *absObj:
		fmt.Fprintf(buf, "abs<%s#%d>", v.class, v.id)
	default:
		fmt.Fprintf(buf, "<%T>", v)
	}
}

func toString(v value) string {
	var b bytes.Buffer
	writeValue(&b, v, 0)
	return b.String()
}

// ---------------------------------------------------------------- iterators

type stringIter struct {
	*strings.Reader
	i int
}

func (it *stringIter) next(r *Run) tuple {
	okv := make(tuple, 3)
	ch, n, err := it.ReadRune()
	ok := err == nil
	okv[0] = ok
	if ok {
		okv[1] = it.i
		okv[2] = ch
	} else {
		okv[1] = 0
		okv[2] = rune(0)
	}
	it.i += n
	return okv
}

// vecIter ranges over a vector string: one element per step (a rune vector's code points; a byte
// vector's bytes, which the caller has made sure are ASCII, so that byte = code point).
type vecIter struct {
	v   runesV
	pos int
}

func (it *vecIter) next(r *Run) tuple {
	if it.pos >= len(it.v.cps) {
		return tuple{false, 0, rune(0)}
	}
	c := it.v.cps[it.pos]
	var cv value = c
	if c.IsConst() {
		cv = rune(c.I)
	}
	i := it.pos
	it.pos++
	return tuple{true, i, cv}
}

// mapIter iterates over a snapshot of the entries in an order chosen by the run
// (every permutation is explored when order exploration is on).
type mapIter struct {
	entries []mapEntry
	pos     int
}

func (it *mapIter) next(r *Run) tuple {
	if it.pos >= len(it.entries) {
		return tuple{false, nil, nil}
	}
	e := it.entries[it.pos]
	it.pos++
	return tuple{true, e.k, e.v}
}
