package sym

// regexp on symbolic subjects.

import (
	"fmt"
	"regexp"
)

func nativeRegexp(v value) *regexp.Regexp {
	nv, ok := v.(nativeV)
	if !ok {
		panic(unsupported(fmt.Sprintf("regexp receiver %T", v)))
	}
	re, _ := exported(nv.rv).Interface().(*regexp.Regexp)
	return re
}

func (r *Run) regexpMatch(fr *frame, recv, subj value) value {
	if so, ok := recv.(*symRegexp); ok {
		return r.symRegexpMatch(fr, so, subj)
	}
	if p, ok := recv.(*value); ok && p == nil {
		fr.panicAt(fr.callInstr(), "nil-deref", "MatchString on nil *regexp.Regexp")
	}
	re := nativeRegexp(recv)
	if re == nil {
		fr.panicAt(fr.callInstr(), "nil-deref", "MatchString on nil *regexp.Regexp")
	}
	switch s := subj.(type) {
	case string:
		return re.MatchString(s)
	case runesV:
		return r.dfaMatch(re, s)
	case *Term:
		// uninterpreted predicate of the subject text, one per expression (consistent across calls)
		return simplifyBool(UF("re_match:"+re.String(), SBool, s))
	}
	panic(unsupported(fmt.Sprintf("MatchString subject %T", subj)))
}

// symRegexp is the compiled form of a symbolic expression of shape ^QuoteMeta(x)$ (plain patterns).
type symRegexp struct {
	lit      value // the literal that must equal the subject (string, *Term or runesV)
	foldCase bool
}

func (r *Run) regexpFindSubmatch(fr *frame, recv, subj value) value {
	re := nativeRegexp(recv)
	switch s := subj.(type) {
	case string:
		m := re.FindStringSubmatch(s)
		if m == nil {
			return []value(nil)
		}
		out := make([]value, len(m))
		for i := range m {
			out[i] = m[i]
		}
		return out
	case runesV:
		return r.submatchVec(re, s)
	case *Term:
		if h := r.E.SubmatchHook; h != nil {
			if v, ok := h(r, re, s); ok {
				return v
			}
		}
	}
	panic(unsupported(fmt.Sprintf("FindStringSubmatch(%s) on symbolic subject", re)))
}
