package sym

// Persistent SMT solver process (z3 -in by default) with push/pop.

import (
	"bufio"
	"fmt"
	"io"
	"os"
	"os/exec"
	"strconv"
	"strings"
	"sync/atomic"
	"time"
)

type SolverKind struct {
	Name string
	Cmd  []string
}

var (
	SolverZ3New = SolverKind{"z3-5.1.0", []string{"z3-new", "-in"}}
	SolverZ3Old = SolverKind{"z3-4.8.12", []string{"/usr/bin/z3", "-in"}}
	SolverCVC5  = SolverKind{"cvc5-1.0", []string{"cvc5", "--incremental", "--produce-models", "--strings-exp", "--lang=smt2"}}
)

type Result int

const (
	Sat Result = iota
	Unsat
	Unknown
)

func (r Result) String() string { return [...]string{"sat", "unsat", "unknown"}[r] }

type SolverStats struct {
	Queries  int64
	Sat      int64
	Unsat    int64
	Unknown  int64
	Nanos    int64
	Restarts int64
}

type Solver struct {
	kind      SolverKind
	cmd       *exec.Cmd
	in        io.WriteCloser
	out       *bufio.Reader
	timeoutMs int
	Stats     *SolverStats
	declared  []map[*Term]bool // one frame per push level
	log       io.Writer
	prelude   string
	// mirror of the assertion stack for restart
	frames   [][]string
	restarts int
}

func NewSolver(kind SolverKind, timeoutMs int, stats *SolverStats, prelude string) (*Solver, error) {
	s := &Solver{kind: kind, timeoutMs: timeoutMs, Stats: stats, prelude: prelude}
	if p := os.Getenv("VERIF_SMTLOG"); p != "" {
		f, _ := os.OpenFile(p, os.O_APPEND|os.O_CREATE|os.O_WRONLY, 0644)
		s.log = f
	}
	if err := s.start(); err != nil {
		return nil, err
	}
	return s, nil
}

func (s *Solver) start() error {
	s.cmd = exec.Command(s.kind.Cmd[0], s.kind.Cmd[1:]...)
	in, err := s.cmd.StdinPipe()
	if err != nil {
		return err
	}
	out, err := s.cmd.StdoutPipe()
	if err != nil {
		return err
	}
	s.cmd.Stderr = nil
	if err := s.cmd.Start(); err != nil {
		return err
	}
	s.in = in
	s.out = bufio.NewReaderSize(out, 1<<16)
	s.declared = []map[*Term]bool{{}}
	s.frames = [][]string{nil}
	s.send("(set-option :print-success false)")
	if strings.HasPrefix(s.kind.Name, "z3") {
		s.send(fmt.Sprintf("(set-option :timeout %d)", s.timeoutMs))
	} else {
		s.send(fmt.Sprintf("(set-option :tlimit-per %d)", s.timeoutMs))
		s.send("(set-logic ALL)")
	}
	if s.restarts > 0 && strings.HasPrefix(s.kind.Name, "z3") {
		// a retry after a time-out also varies the search
		s.send(fmt.Sprintf("(set-option :smt.random_seed %d)", s.restarts))
		s.send(fmt.Sprintf("(set-option :sat.random_seed %d)", s.restarts))
	}
	s.send("(set-option :produce-models true)")
	s.send("(declare-sort U 0)")
	if s.prelude != "" {
		s.send(s.prelude)
	}
	return nil
}

func (s *Solver) Close() {
	if s.cmd != nil {
		s.in.Close()
		done := make(chan struct{})
		go func() { s.cmd.Wait(); close(done) }()
		select {
		case <-done:
		case <-time.After(500 * time.Millisecond):
			s.cmd.Process.Kill()
			<-done
		}
		s.cmd = nil
	}
}

func (s *Solver) send(line string) {
	if s.log != nil {
		fmt.Fprintln(s.log, line)
	}
	io.WriteString(s.in, line)
	io.WriteString(s.in, "\n")
}

func (s *Solver) record(line string) {
	s.frames[len(s.frames)-1] = append(s.frames[len(s.frames)-1], line)
	s.send(line)
}

func (s *Solver) Push() {
	s.declared = append(s.declared, map[*Term]bool{})
	s.frames = append(s.frames, nil)
	s.send("(push 1)")
}

func (s *Solver) Pop() {
	s.declared = s.declared[:len(s.declared)-1]
	s.frames = s.frames[:len(s.frames)-1]
	s.send("(pop 1)")
}

func (s *Solver) Depth() int { return len(s.declared) - 1 }

func (s *Solver) isDeclared(t *Term) bool {
	for _, m := range s.declared {
		if m[t] {
			return true
		}
	}
	return false
}

func (s *Solver) declare(t *Term) {
	var ds []*Term
	collectDecls(t, map[*Term]bool{}, &ds)
	seenUF := map[string]bool{}
	for _, d := range ds {
		if s.isDeclared(d) {
			continue
		}
		switch d.Op {
		case "var":
			s.record(fmt.Sprintf("(declare-const %s %s)", smtName(d.Name), d.Sort))
			s.declared[len(s.declared)-1][d] = true
		case "const": // opaque constant
			s.record(fmt.Sprintf("(declare-const %s U)", smtName("u!"+d.S)))
			s.declared[len(s.declared)-1][d] = true
		case "uf":
			// declared per function name+signature; keyed by a representative term
			sig := d.Name
			if PredefinedFuns[sig] {
				continue
			}
			rep := Var("uf!"+sig, SBool)
			if !s.isDeclared(rep) && !seenUF[sig] {
				var as []string
				for _, a := range d.Args {
					as = append(as, a.Sort.String())
				}
				s.record(fmt.Sprintf("(declare-fun %s (%s) %s)", smtName(d.Name), strings.Join(as, " "), d.Sort))
				s.declared[len(s.declared)-1][rep] = true
				seenUF[sig] = true
			}
		}
	}
}

func (s *Solver) Assert(t *Term) {
	if t == TTrue {
		return
	}
	s.declare(t)
	s.record("(assert " + t.String() + ")")
}

// Check runs check-sat on the current stack. An "unknown" (time-out) answer of the incremental
// process is retried in a FRESH process that is given only the current assertion stack: whether an
// instance is hard for z3 depends on what the process learnt from earlier, unrelated queries.
func (s *Solver) Check() Result {
	r := s.check1()
	for try := 0; r == Unknown && try < 2; try++ {
		s.restart()
		r = s.check1()
		if r != Unknown {
			atomic.AddInt64(&s.Stats.Unknown, -int64(try+1))
		}
	}
	return r
}

func (s *Solver) check1() Result {
	start := time.Now()
	s.send("(check-sat)")
	line, err := s.readLine(time.Duration(s.timeoutMs)*time.Millisecond + 2*time.Second)
	atomic.AddInt64(&s.Stats.Queries, 1)
	atomic.AddInt64(&s.Stats.Nanos, int64(time.Since(start)))
	if err != nil {
		fmt.Fprintf(os.Stderr, "SOLVER-UNKNOWN %s: %v after %v\n", s.kind.Name, err, time.Since(start))
		atomic.AddInt64(&s.Stats.Unknown, 1)
		return Unknown
	}
	switch strings.TrimSpace(line) {
	case "sat":
		atomic.AddInt64(&s.Stats.Sat, 1)
		return Sat
	case "unsat":
		atomic.AddInt64(&s.Stats.Unsat, 1)
		return Unsat
	default:
		// "unknown", "timeout" or an "(error" line: inconclusive
		if strings.Contains(line, "(error") {
			fmt.Fprintf(os.Stderr, "SOLVER-ERROR %s: %s\n", s.kind.Name, strings.TrimSpace(line))
		} else {
			fmt.Fprintf(os.Stderr, "SOLVER-UNKNOWN %s: answered %q after %v\n", s.kind.Name, strings.TrimSpace(line), time.Since(start))
		}
		atomic.AddInt64(&s.Stats.Unknown, 1)
		return Unknown
	}
}

// CheckWith checks the stack plus extra assertions in a temporary frame.
func (s *Solver) CheckWith(extra ...*Term) Result {
	s.Push()
	for _, e := range extra {
		s.Assert(e)
	}
	r := s.Check()
	s.Pop()
	return r
}

func (s *Solver) readLine(d time.Duration) (string, error) {
	type res struct {
		l   string
		err error
	}
	ch := make(chan res, 1)
	go func() {
		l, err := s.out.ReadString('\n')
		ch <- res{l, err}
	}()
	select {
	case r := <-ch:
		return r.l, r.err
	case <-time.After(d):
		s.cmd.Process.Kill()
		<-ch
		return "", fmt.Errorf("solver watchdog timeout")
	}
}

func (s *Solver) restart() {
	atomic.AddInt64(&s.Stats.Restarts, 1)
	s.restarts++
	frames := s.frames
	if s.cmd != nil {
		s.cmd.Process.Kill()
		s.cmd.Wait()
	}
	decl := s.declared
	if err := s.start(); err != nil {
		panic(err)
	}
	// replay the assertion stack
	s.declared = decl
	s.frames = [][]string{nil}
	for i, fr := range frames {
		if i > 0 {
			s.frames = append(s.frames, nil)
			s.send("(push 1)")
		}
		for _, l := range fr {
			s.record(l)
		}
	}
}

// Model values for the given terms (after a Sat answer, in the same frame).
// CheckModel runs check-sat with extra assertions and, if sat, returns values of the given vars.
func (s *Solver) CheckModel(vars []*Term, extra ...*Term) (Result, map[string]interface{}) {
	s.Push()
	defer s.Pop()
	for _, e := range extra {
		s.Assert(e)
	}
	for _, v := range vars {
		s.declare(v)
	}
	r := s.Check()
	if r != Sat || len(vars) == 0 {
		return r, nil
	}
	var sb strings.Builder
	sb.WriteString("(get-value (")
	for _, v := range vars {
		sb.WriteString(v.String())
		sb.WriteByte(' ')
	}
	sb.WriteString("))")
	s.send(sb.String())
	txt, err := s.readSexp()
	if err != nil {
		return r, nil
	}
	vals := parseGetValue(txt)
	m := map[string]interface{}{}
	for i, v := range vars {
		if i < len(vals) {
			m[v.Name] = vals[i]
		}
	}
	return r, m
}

func (s *Solver) readSexp() (string, error) {
	var sb strings.Builder
	depth := 0
	inStr := false
	started := false
	for {
		b, err := s.out.ReadByte()
		if err != nil {
			return "", err
		}
		sb.WriteByte(b)
		if inStr {
			if b == '"' {
				inStr = false
			}
			continue
		}
		switch b {
		case '"':
			inStr = true
		case '(':
			depth++
			started = true
		case ')':
			depth--
			if started && depth == 0 {
				// consume rest of line
				s.out.ReadString('\n')
				return sb.String(), nil
			}
		}
	}
}

// parseGetValue parses "((t1 v1) (t2 v2) ...)" and returns the values in order.
func parseGetValue(txt string) []interface{} {
	toks := tokenize(txt)
	pos := 0
	var parse func() interface{}
	parse = func() interface{} {
		if pos >= len(toks) {
			return nil
		}
		t := toks[pos]
		pos++
		if t == "(" {
			var l []interface{}
			for pos < len(toks) && toks[pos] != ")" {
				l = append(l, parse())
			}
			pos++
			return l
		}
		return t
	}
	top, _ := parse().([]interface{})
	var out []interface{}
	for _, pair := range top {
		p, ok := pair.([]interface{})
		if !ok || len(p) != 2 {
			out = append(out, nil)
			continue
		}
		out = append(out, evalValue(p[1]))
	}
	return out
}

func evalValue(v interface{}) interface{} {
	switch x := v.(type) {
	case string:
		if x == "true" {
			return true
		}
		if x == "false" {
			return false
		}
		if strings.HasPrefix(x, "\"") {
			return unescapeSMT(x[1 : len(x)-1])
		}
		if i, err := strconv.ParseInt(x, 10, 64); err == nil {
			return i
		}
		return x
	case []interface{}:
		if len(x) == 2 && x[0] == "-" {
			if i, ok := evalValue(x[1]).(int64); ok {
				return -i
			}
		}
		return fmt.Sprint(x)
	}
	return nil
}

func unescapeSMT(s string) string {
	var out []byte
	for i := 0; i < len(s); i++ {
		if s[i] == '"' && i+1 < len(s) && s[i+1] == '"' {
			out = append(out, '"')
			i++
			continue
		}
		if s[i] == '\\' && i+2 < len(s) && s[i+1] == 'u' && s[i+2] == '{' {
			j := strings.IndexByte(s[i:], '}')
			if j > 0 {
				if c, err := strconv.ParseUint(s[i+3:i+j], 16, 32); err == nil {
					if c < 256 {
						out = append(out, byte(c))
					} else {
						out = append(out, []byte(string(rune(c)))...)
					}
					i += j
					continue
				}
			}
		}
		if s[i] == '\\' && i+5 < len(s) && s[i+1] == 'u' {
			if c, err := strconv.ParseUint(s[i+2:i+6], 16, 32); err == nil {
				if c < 256 {
					out = append(out, byte(c))
				} else {
					out = append(out, []byte(string(rune(c)))...)
				}
				i += 5
				continue
			}
		}
		out = append(out, s[i])
	}
	return string(out)
}

func tokenize(s string) []string {
	var toks []string
	for i := 0; i < len(s); {
		c := s[i]
		switch {
		case c == ' ' || c == '\n' || c == '\t' || c == '\r':
			i++
		case c == '(' || c == ')':
			toks = append(toks, string(c))
			i++
		case c == '"':
			j := i + 1
			for j < len(s) {
				if s[j] == '"' {
					if j+1 < len(s) && s[j+1] == '"' {
						j += 2
						continue
					}
					break
				}
				j++
			}
			toks = append(toks, s[i:j+1])
			i = j + 1
		case c == '|':
			j := strings.IndexByte(s[i+1:], '|')
			toks = append(toks, s[i:i+j+2])
			i = i + j + 2
		default:
			j := i
			for j < len(s) && !strings.ContainsRune(" \n\t\r()", rune(s[j])) {
				j++
			}
			toks = append(toks, s[i:j])
			i = j
		}
	}
	return toks
}
