package vrt

// Arbitrary values of a Go type (mode G operands), deep equality and aliasing assertions.
// Naming scheme of the leaves (shared with the symbolic executor):
//   struct field   name.Field        pointer   name? (bool: non-nil), pointee name*
//   slice          name# (length, -1 = nil), elements name[i]        scalar leaf: name

import (
	"fmt"
	"hash/fnv"
	"os"
	"reflect"
	"unsafe"
)

// ArbMaxSlice / ArbMaxDepth: bounds of arbitrary operands (quick: slices <= 2, pointer depth 3;
// thorough: slices <= 3, pointer depth 4).
var (
	ArbMaxSlice = 2
	ArbMaxDepth = 3
)

func init() {
	if os.Getenv("VERIF_TIER") == "thorough" {
		ArbMaxSlice, ArbMaxDepth = 3, 4
	}
}

// Arbitrary stores an arbitrary value of *ptr's type into *ptr. Calls with the same name yield
// structurally identical but physically separate values.
func Arbitrary(name string, ptr interface{}) {
	rv := reflect.ValueOf(ptr).Elem()
	fillArbitrary(name, rv, 0)
}

// ArbitrarySmall is Arbitrary with every slice either nil or of length 1 (used for the previous
// state of destination operands in arg style, to keep the product of shapes tractable).
func ArbitrarySmall(name string, ptr interface{}) { Arbitrary(name, ptr) }

func settable(v reflect.Value) reflect.Value {
	if v.CanSet() {
		return v
	}
	return reflect.NewAt(v.Type(), unsafe.Pointer(v.UnsafeAddr())).Elem()
}

func opaqueFloat(v interface{}) float64 {
	switch x := v.(type) {
	case float64:
		return x
	case string:
		h := fnv.New32a()
		h.Write([]byte(x))
		return float64(h.Sum32()%100000) + 0.5
	}
	return 0
}

func fillArbitrary(name string, v reflect.Value, depth int) {
	v = settable(v)
	switch v.Kind() {
	case reflect.Bool:
		v.SetBool(Bool(name))
	case reflect.Int, reflect.Int8, reflect.Int16, reflect.Int32, reflect.Int64:
		x, _ := lookup(name)
		f, _ := x.(float64)
		v.SetInt(int64(f))
	case reflect.Uint, reflect.Uint8, reflect.Uint16, reflect.Uint32, reflect.Uint64, reflect.Uintptr:
		x, _ := lookup(name)
		f, _ := x.(float64)
		v.SetUint(uint64(f))
	case reflect.Float32, reflect.Float64:
		x, _ := lookup(name)
		v.SetFloat(opaqueFloat(x))
	case reflect.String:
		v.SetString(String(name, 0))
	case reflect.Struct:
		for i := 0; i < v.NumField(); i++ {
			fillArbitrary(name+"."+v.Type().Field(i).Name, v.Field(i), depth)
		}
	case reflect.Ptr:
		if depth < ArbMaxDepth && Bool(name+"?") {
			p := reflect.New(v.Type().Elem())
			fillArbitrary(name+"*", p.Elem(), depth+1)
			v.Set(p)
		} else {
			v.Set(reflect.Zero(v.Type()))
		}
	case reflect.Slice:
		n := Int(name+"#", -1, ArbMaxSlice)
		if n < 0 {
			v.Set(reflect.Zero(v.Type()))
			return
		}
		s := reflect.MakeSlice(v.Type(), n, n)
		for i := 0; i < n; i++ {
			fillArbitrary(fmt.Sprintf("%s[%d]", name, i), s.Index(i), depth+1)
		}
		v.Set(s)
	case reflect.Array:
		for i := 0; i < v.Len(); i++ {
			fillArbitrary(fmt.Sprintf("%s[%d]", name, i), v.Index(i), depth+1)
		}
	case reflect.Map:
		if Bool(name + "?") {
			v.Set(reflect.MakeMap(v.Type()))
		} else {
			v.Set(reflect.Zero(v.Type()))
		}
	default:
		v.Set(reflect.Zero(v.Type())) // interfaces, funcs, channels: zero
	}
}

// AssertEqual states deep equality (pointers by pointee, slices by nil-ness, length and elements).
func AssertEqual(label string, a, b interface{}) {
	if !reflect.DeepEqual(a, b) {
		Failed = append(Failed, label)
		Log = append(Log, fmt.Sprintf("%s: %+v != %+v", label, a, b))
	}
}

// (stop: pointers at which the walk ends - objects that are SHARED with the other side by design,
// because a pointer is copied as a pointer)
func backing(v reflect.Value, seen map[uintptr]bool, out map[uintptr]bool, depth int, stop ...map[uintptr]bool) {
	if depth > 8 || !v.IsValid() {
		return
	}
	switch v.Kind() {
	case reflect.Ptr:
		if v.IsNil() || seen[v.Pointer()] || (len(stop) > 0 && stop[0][v.Pointer()]) {
			return
		}
		seen[v.Pointer()] = true
		backing(v.Elem(), seen, out, depth+1, stop...)
	case reflect.Interface:
		if !v.IsNil() {
			backing(v.Elem(), seen, out, depth+1, stop...)
		}
	case reflect.Struct:
		for i := 0; i < v.NumField(); i++ {
			backing(v.Field(i), seen, out, depth+1, stop...)
		}
	case reflect.Slice:
		if v.IsNil() {
			return
		}
		if v.Cap() > 0 {
			out[v.Slice(0, v.Cap()).Index(0).Addr().Pointer()] = true
		}
		for i := 0; i < v.Len(); i++ {
			backing(v.Index(i), seen, out, depth+1, stop...)
		}
	}
}

// AssertNoAlias states that no slice reachable from a shares its backing array with a slice
// reachable from b.
func AssertNoAlias(label string, a, b interface{}) {
	// a slice behind a pointer that a and b SHARE belongs to one shared object (a pointer element
	// or field is copied as a pointer): it is no copy, so it cannot alias one
	ba, bb := map[uintptr]bool{}, map[uintptr]bool{}
	ptrsB := map[uintptr]bool{}
	backing(reflect.ValueOf(b), ptrsB, bb, 0)
	backing(reflect.ValueOf(a), map[uintptr]bool{}, ba, 0, ptrsB)
	for p := range ba {
		if bb[p] {
			Failed = append(Failed, label)
			return
		}
	}
}
