package vrt

// TypeCheckFuncs: the Go type checker as per-path judge (C01). The generated function texts are
// spliced into the skeleton package in place of the setup file (ordinary build: files carrying the
// convergen build tag are excluded) and type-checked.

import (
	"fmt"
	"go/ast"
	"go/importer"
	"go/parser"
	"go/token"
	"go/types"
	"os"
	"path/filepath"
	"strings"
	"sync"
)

type dirImporter struct {
	from types.ImporterFrom
	dir  string
}

func (d dirImporter) Import(path string) (*types.Package, error) {
	return d.from.ImportFrom(path, d.dir, 0)
}

var (
	tcMu   sync.Mutex
	tcImps = map[string]types.Importer{}
)

// HasConvergenTag reports whether a Go source file is excluded from the ordinary build by the
// convergen build constraint.
func HasConvergenTag(src string) bool {
	for _, line := range strings.Split(src, "\n") {
		t := strings.TrimSpace(line)
		if strings.HasPrefix(t, "package ") {
			break
		}
		if strings.HasPrefix(t, "//go:build") && strings.Contains(t, "convergen") {
			return true
		}
		if strings.HasPrefix(t, "// +build") && strings.Contains(t, "convergen") {
			return true
		}
	}
	return false
}

// SpliceAndCheck type-checks `funcs` inside the package in dir, with the import declarations of
// setupFile; imp resolves imports. Unused-import errors are ignored (goimports prunes them).
func SpliceAndCheck(dir, setupFile, funcs string, imp types.Importer) string {
	fset := token.NewFileSet()
	ents, err := os.ReadDir(dir)
	if err != nil {
		return "judge: " + err.Error()
	}
	var files []*ast.File
	pkgName := ""
	for _, e := range ents {
		if e.IsDir() || !strings.HasSuffix(e.Name(), ".go") || strings.HasSuffix(e.Name(), "_test.go") || strings.HasSuffix(e.Name(), ".gen.go") {
			continue
		}
		b, err := os.ReadFile(filepath.Join(dir, e.Name()))
		if err != nil {
			return "judge: " + err.Error()
		}
		if HasConvergenTag(string(b)) {
			continue
		}
		f, err := parser.ParseFile(fset, filepath.Join(dir, e.Name()), b, 0)
		if err != nil {
			return "judge: " + err.Error()
		}
		pkgName = f.Name.Name
		files = append(files, f)
	}
	sb, err := os.ReadFile(setupFile)
	if err != nil {
		return "judge: " + err.Error()
	}
	sf, err := parser.ParseFile(fset, setupFile, sb, parser.ImportsOnly)
	if err != nil {
		return "judge: " + err.Error()
	}
	if pkgName == "" {
		pkgName = sf.Name.Name
	}
	// extra: imports that goimports would ADD (the last stage resolves an unknown package
	// qualifier to a package of that name; here: one in the transitive import closure)
	check := func(extra []string) (errs []string, undefined []string, pkg *types.Package) {
		var gen strings.Builder
		gen.WriteString("package " + pkgName + "\n")
		for _, is := range sf.Imports {
			gen.WriteString("import ")
			if is.Name != nil {
				gen.WriteString(is.Name.Name + " ")
			}
			gen.WriteString(is.Path.Value + "\n")
		}
		for _, p := range extra {
			gen.WriteString("import \"" + p + "\"\n")
		}
		gen.WriteString(funcs)
		gf, err := parser.ParseFile(fset, filepath.Join(dir, "zz_generated.gen.go"), gen.String(), 0)
		if err != nil {
			return []string{"generated code does not parse: " + err.Error()}, nil, nil
		}
		conf := types.Config{Importer: imp, Error: func(err error) {
			msg := err.Error()
			if strings.Contains(msg, "imported") && strings.Contains(msg, "and not used") {
				return
			}
			if i := strings.Index(msg, "undefined: "); i >= 0 {
				undefined = append(undefined, strings.TrimSpace(msg[i+len("undefined: "):]))
			}
			if len(errs) < 3 {
				errs = append(errs, msg)
			}
		}}
		pkg, _ = conf.Check(pkgName, fset, append(append([]*ast.File(nil), files...), gf), nil)
		return errs, undefined, pkg
	}
	errs, undefined, pkg := check(nil)
	if len(undefined) > 0 && pkg != nil {
		byName := map[string][]string{}
		seen := map[*types.Package]bool{}
		var walk func(p *types.Package)
		walk = func(p *types.Package) {
			if seen[p] {
				return
			}
			seen[p] = true
			byName[p.Name()] = append(byName[p.Name()], p.Path())
			for _, q := range p.Imports() {
				walk(q)
			}
		}
		for _, q := range pkg.Imports() {
			walk(q)
		}
		var extra []string
		added := map[string]bool{}
		for _, u := range undefined {
			if ps := byName[u]; len(ps) == 1 && !added[ps[0]] {
				added[ps[0]] = true
				extra = append(extra, ps[0])
			}
		}
		if len(extra) > 0 {
			errs, _, _ = check(extra)
		}
	}
	return strings.Join(errs, "; ")
}

// TypeCheckFuncs (native side): imports are resolved from source relative to the skeleton directory.
func TypeCheckFuncs(skeleton, funcs string) string {
	dir := filepath.Join(skRoot(), skeleton)
	tcMu.Lock()
	imp, ok := tcImps[dir]
	if !ok {
		from, ok2 := importer.ForCompiler(token.NewFileSet(), "source", nil).(types.ImporterFrom)
		if !ok2 {
			tcMu.Unlock()
			return "judge: source importer unavailable"
		}
		imp = dirImporter{from, dir}
		tcImps[dir] = imp
	}
	defer tcMu.Unlock()
	return SpliceAndCheck(dir, filepath.Join(dir, "setup.go"), funcs, imp)
}

var _ = fmt.Sprint
