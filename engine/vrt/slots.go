package vrt

// Notation slots of skeleton setup files: a line `// :@S1@` is replaced by the text chosen from
// the skeleton's menu (slots.json); {ON}/{OFF} in a menu entry are instantiated by one toggle
// family chosen once per run.

import (
	"encoding/json"
	"os"
	"path/filepath"
	"regexp"
	"strings"
)

// ToggleFamilies lists (ON, OFF) notation spellings; index = input "slot.family".
var ToggleFamilies = [][2]string{
	{":typecast", ":typecast:off"},
	{":getter", ":getter:off"},
	{":stringer", ":stringer:off"},
	{":case:off", ":case"},
	{":style arg", ":style return"},
	{":match none", ":match name"},
}

var reSlot = regexp.MustCompile(`(?m)^[ \t]*// :@([0-9A-Za-z_]+)@[ \t]*\n`)

// LoadSlots reads the slot menus of a skeleton directory.
func LoadSlots(dir string) map[string][]string {
	m := map[string][]string{}
	if b, err := os.ReadFile(filepath.Join(dir, "slots.json")); err == nil {
		_ = json.Unmarshal(b, &m)
	}
	return m
}

// InstantiateSlot returns the notation text of a slot for the given choices ("" = no line).
func InstantiateSlot(menu []string, k int, choose func(slot string, n int) int) string {
	if k < 0 || k >= len(menu) {
		k = 0
	}
	text := menu[k]
	if strings.Contains(text, "{ON}") || strings.Contains(text, "{OFF}") {
		f := ToggleFamilies[choose("family", len(ToggleFamilies))]
		text = strings.ReplaceAll(strings.ReplaceAll(text, "{ON}", f[0]), "{OFF}", f[1])
	}
	return text
}

// SubstituteSlots replaces every slot line of src by the chosen notation text (or removes it).
func SubstituteSlots(src []byte, slots map[string][]string, choose func(slot string, n int) int) []byte {
	return reSlot.ReplaceAllFunc(src, func(m []byte) []byte {
		sm := reSlot.FindSubmatch(m)
		name := string(sm[1])
		menu, ok := slots[name]
		if !ok {
			return nil
		}
		text := InstantiateSlot(menu, choose(name, len(menu)), choose)
		if text == "" {
			return nil
		}
		indent := m[:len(m)-len(strings.TrimLeft(string(m), " \t"))]
		var out []byte
		for _, line := range strings.Split(text, "\n") {
			out = append(out, indent...)
			if strings.HasPrefix(line, "//") {
				// a menu line that is already a comment (a directive such as //go:generate) stands as written
				out = append(out, []byte(line+"\n")...)
				continue
			}
			out = append(out, []byte("// "+line+"\n")...)
		}
		return out
	})
}

func tableChoice(slot string, n int) int {
	v, ok := lookup("slot." + slot)
	if !ok {
		return 0
	}
	f, _ := v.(float64)
	if int(f) < 0 || int(f) >= n {
		return 0
	}
	return int(f)
}

func skRoot() string {
	root := os.Getenv("VERIF_SK_DIR")
	if root == "" {
		root = "/verif/skeletons"
	}
	return root
}

// SlotText returns the notation text standing in the given slot of a skeleton on this run.
func SlotText(skeleton, slot string) string {
	menu := LoadSlots(filepath.Join(skRoot(), skeleton))[slot]
	if len(menu) == 0 {
		return ""
	}
	return InstantiateSlot(menu, tableChoice(slot, len(menu)), tableChoice)
}

// SlotFamily returns the index of the toggle family of this run.
func SlotFamily() int { return tableChoice("family", len(ToggleFamilies)) }
