package vrt

// Native judges: concrete oracles applied per explored path to the Go text emitted by the real
// code. They parse the text (go/parser) and state the property on the AST, so that whitespace,
// parentheses and formatting are not observable.

import (
	"fmt"
	"go/ast"
	"go/format"
	"go/parser"
	"go/token"
	"go/types"
	"strings"
)

func init() {
	NativeFuncs["JudgeSignature"] = JudgeSignature
	NativeFuncs["JudgeHooks"] = JudgeHooks
	NativeFuncs["JudgeErrFlow"] = JudgeErrFlow
	NativeFuncs["ParsesAsFunc"] = ParsesAsFunc
	NativeFuncs["ParsesAsFile"] = ParsesAsFile
	NativeFuncs["Gofmt"] = Gofmt
}

func parseFunc(text string) (*ast.FuncDecl, *token.FileSet, error) {
	fset := token.NewFileSet()
	f, err := parser.ParseFile(fset, "out.go", "package p\n"+text, parser.ParseComments)
	if err != nil {
		return nil, nil, err
	}
	for _, d := range f.Decls {
		if fd, ok := d.(*ast.FuncDecl); ok {
			return fd, fset, nil
		}
	}
	return nil, nil, fmt.Errorf("no function declaration in output")
}

// ParsesAsFunc returns "" when text is exactly one syntactically valid function declaration.
func ParsesAsFunc(text string) string {
	_, _, err := parseFunc(text)
	if err != nil {
		return err.Error()
	}
	return ""
}

// ParsesAsFile returns "" when text is a syntactically valid Go source file, else the parser's message.
func ParsesAsFile(text string) string {
	_, err := parser.ParseFile(token.NewFileSet(), "out.go", text, parser.ParseComments)
	if err != nil {
		return err.Error()
	}
	return ""
}

// ParsesAsExpr reports whether text is a Go expression (what a :literal must be). On symbolic text
// the engine answers with the same arbitrary-but-consistent predicate it uses for go/parser.ParseExpr.
func ParsesAsExpr(text string) bool {
	_, err := parser.ParseExpr(text)
	return err == nil
}

// Gofmt returns text formatted by go/format (what the generator's last stage does), or text itself
// when it does not parse.
func Gofmt(text string) string {
	out, err := format.Source([]byte(text))
	if err != nil {
		return text
	}
	return string(out)
}

func fieldList(fl *ast.FieldList) []string {
	var out []string
	if fl == nil {
		return out
	}
	for _, f := range fl.List {
		t := types.ExprString(f.Type)
		if len(f.Names) == 0 {
			out = append(out, "_ "+t)
		}
		for _, n := range f.Names {
			out = append(out, n.Name+" "+t)
		}
	}
	return out
}

func ptr(p bool, t string) string {
	if p {
		return "*" + t
	}
	return t
}

// Atoms used by the emitter harnesses (names and type expressions are opaque placeholders).
const (
	AtomFunc = "Fn0"
	AtomRecv = "r0"
	AtomSrc  = "s0"
	AtomDst  = "d0"
	AtomSrcT = "pkgs.Src0"
	AtomDstT = "pkgd.Dst0"
)

func ArgName(i int) string { return fmt.Sprintf("a%d", i) }
func ArgType(i int) string { return fmt.Sprintf("ext.T%d", i) }

// JudgeSignature compares the emitted header with the documented shape (README ":style",
// ":recv", additional arguments after the source, `err error` last).
func JudgeSignature(out string, recv, styleArg, srcPtr, dstPtr, retError bool, nargs, argPtrMask int) string {
	fd, _, err := parseFunc(out)
	if err != nil {
		return "emitted function does not parse: " + err.Error()
	}
	if fd.Name.Name != AtomFunc {
		return "function name " + fd.Name.Name
	}
	var wantRecv, wantParams, wantResults []string
	if recv {
		wantRecv = []string{AtomRecv + " " + ptr(srcPtr, AtomSrcT)}
	}
	if styleArg {
		wantParams = append(wantParams, AtomDst+" *"+AtomDstT)
	}
	if !recv {
		wantParams = append(wantParams, AtomSrc+" "+ptr(srcPtr, AtomSrcT))
	}
	for i := 0; i < nargs; i++ {
		wantParams = append(wantParams, ArgName(i)+" "+ptr(argPtrMask&(1<<i) != 0, ArgType(i)))
	}
	if !styleArg {
		wantResults = append(wantResults, AtomDst+" "+ptr(dstPtr, AtomDstT))
	}
	if retError {
		wantResults = append(wantResults, "err error")
	}
	if got := fieldList(fd.Recv); strings.Join(got, ", ") != strings.Join(wantRecv, ", ") {
		return fmt.Sprintf("receiver (%s), documented (%s)", strings.Join(got, ", "), strings.Join(wantRecv, ", "))
	}
	if got := fieldList(fd.Type.Params); strings.Join(got, ", ") != strings.Join(wantParams, ", ") {
		return fmt.Sprintf("parameters (%s), documented (%s)", strings.Join(got, ", "), strings.Join(wantParams, ", "))
	}
	if got := fieldList(fd.Type.Results); strings.Join(got, ", ") != strings.Join(wantResults, ", ") {
		return fmt.Sprintf("results (%s), documented (%s)", strings.Join(got, ", "), strings.Join(wantResults, ", "))
	}
	// pointer-return style allocates the destination first
	if !styleArg && dstPtr {
		if len(fd.Body.List) == 0 {
			return "missing destination allocation"
		}
		as, ok := fd.Body.List[0].(*ast.AssignStmt)
		if !ok || len(as.Lhs) != 1 || types.ExprString(as.Lhs[0]) != AtomDst || types.ExprString(as.Rhs[0]) != "&"+AtomDstT+"{}" {
			return "first statement is not the destination allocation"
		}
	}
	if len(wantResults) > 0 {
		if n := len(fd.Body.List); n == 0 {
			return "function with results has an empty body"
		} else if _, ok := fd.Body.List[n-1].(*ast.ReturnStmt); !ok {
			return "function with results does not end in return"
		}
	}
	return ""
}

func callName(c *ast.CallExpr) string { return types.ExprString(c.Fun) }

// stmtCall returns the call expression of `f(...)` or `err = f(...)` / `x, err = f(...)` statements.
func stmtCall(s ast.Stmt) *ast.CallExpr {
	switch st := s.(type) {
	case *ast.ExprStmt:
		c, _ := st.X.(*ast.CallExpr)
		return c
	case *ast.AssignStmt:
		if len(st.Rhs) == 1 {
			c, _ := st.Rhs[0].(*ast.CallExpr)
			return c
		}
	}
	return nil
}

func assignsErr(s ast.Stmt) bool {
	as, ok := s.(*ast.AssignStmt)
	if !ok {
		return false
	}
	for _, l := range as.Lhs {
		if id, ok := l.(*ast.Ident); ok && id.Name == "err" {
			return true
		}
	}
	return false
}

func isErrCheck(s ast.Stmt) bool {
	is, ok := s.(*ast.IfStmt)
	if !ok || is.Init != nil || is.Else != nil {
		return false
	}
	if types.ExprString(is.Cond) != "err != nil" {
		return false
	}
	if len(is.Body.List) != 1 {
		return false
	}
	_, ok = is.Body.List[0].(*ast.ReturnStmt)
	return ok
}

// depthOfOperand: pointer depth adjustment of an operand expression: &x = +1, *x = -1, x = 0.
func operandShape(e ast.Expr) (name string, adj int) {
	switch x := e.(type) {
	case *ast.UnaryExpr:
		if x.Op == token.AND {
			n, a := operandShape(x.X)
			return n, a + 1
		}
	case *ast.StarExpr:
		n, a := operandShape(x.X)
		return n, a - 1
	case *ast.ParenExpr:
		return operandShape(x.X)
	case *ast.Ident:
		return x.Name, 0
	}
	return types.ExprString(e), 0
}

func b2i(b bool) int {
	if b {
		return 1
	}
	return 0
}

// JudgeHooks checks placement and operand typing of pre/post hook calls in an emitted function.
// hookMask: bit0 = pre present, bit1 = post present. For each hook: dstPtr/srcPtr = pointer-ness
// of the hook's parameters, args = forwards additional arguments, retErr = returns error.
// Variables: the destination variable has, in the emitted header, pointer depth 1 in arg style
// and depth(dstPtr) in return style; the source (or receiver) has depth(srcPtr).
func JudgeHooks(out string, recv, styleArg, srcPtr, dstPtr, retError bool, nargs int,
	hookMask int, preDstPtr, preSrcPtr, preArgs, preErr, postDstPtr, postSrcPtr, postArgs, postErr bool, nAssign int) string {
	fd, _, err := parseFunc(out)
	if err != nil {
		return "emitted function does not parse: " + err.Error()
	}
	srcName := AtomSrc
	if recv {
		srcName = AtomRecv
	}
	dstDepth := b2i(dstPtr)
	if styleArg {
		dstDepth = 1
	}
	srcDepth := b2i(srcPtr)
	stmts := fd.Body.List
	// index statements: allocation, hook calls, assignments (dN = ...), returns
	preIdx, postIdx := -1, -1
	var preCount, postCount int
	firstAssign, lastAssign, allocIdx := -1, -1, -1
	for i, s := range stmts {
		if c := stmtCall(s); c != nil {
			switch callName(c) {
			case "hk.Pre":
				preCount++
				preIdx = i
				continue
			case "hk.Post":
				postCount++
				postIdx = i
				continue
			}
		}
		if as, ok := s.(*ast.AssignStmt); ok {
			lhs := types.ExprString(as.Lhs[0])
			if lhs == AtomDst {
				allocIdx = i
				continue
			}
			if strings.HasPrefix(lhs, AtomDst+".") {
				if firstAssign < 0 {
					firstAssign = i
				}
				lastAssign = i
			}
		}
	}
	checkHook := func(which string, idx, count int, present, hDstPtr, hSrcPtr, hArgs, hErr bool) string {
		if !present {
			if count != 0 {
				return which + " hook called although none is configured"
			}
			return ""
		}
		if count != 1 {
			return fmt.Sprintf("%s hook called %d times", which, count)
		}
		c := stmtCall(stmts[idx])
		wantN := 2
		if hArgs {
			wantN += nargs
		}
		if len(c.Args) != wantN {
			return fmt.Sprintf("%s hook called with %d operands, want %d", which, len(c.Args), wantN)
		}
		n0, a0 := operandShape(c.Args[0])
		if n0 != AtomDst {
			return which + " hook: first operand is " + n0 + ", not the destination"
		}
		if dstDepth+a0 != b2i(hDstPtr) {
			return fmt.Sprintf("%s hook: destination operand %s has pointer depth %d, hook declares %d", which, types.ExprString(c.Args[0]), dstDepth+a0, b2i(hDstPtr))
		}
		n1, a1 := operandShape(c.Args[1])
		if n1 != srcName {
			return which + " hook: second operand is " + n1 + ", not the source"
		}
		if srcDepth+a1 != b2i(hSrcPtr) {
			return fmt.Sprintf("%s hook: source operand %s has pointer depth %d, hook declares %d", which, types.ExprString(c.Args[1]), srcDepth+a1, b2i(hSrcPtr))
		}
		if hArgs {
			for i := 0; i < nargs; i++ {
				if got := types.ExprString(c.Args[2+i]); got != ArgName(i) {
					return fmt.Sprintf("%s hook: additional operand %d is %s", which, i, got)
				}
			}
		}
		if hErr != assignsErr(stmts[idx]) {
			return which + " hook: error result handling does not match the hook's signature"
		}
		if hErr {
			if idx+1 >= len(stmts) || !isErrCheck(stmts[idx+1]) {
				return which + " hook: error result is not checked immediately"
			}
		}
		return ""
	}
	if v := checkHook("pre", preIdx, preCount, hookMask&1 != 0, preDstPtr, preSrcPtr, preArgs, preErr); v != "" {
		return v
	}
	if v := checkHook("post", postIdx, postCount, hookMask&2 != 0, postDstPtr, postSrcPtr, postArgs, postErr); v != "" {
		return v
	}
	if hookMask&1 != 0 {
		if allocIdx >= 0 && preIdx < allocIdx {
			return "pre hook runs before the destination is allocated"
		}
		if firstAssign >= 0 && preIdx > firstAssign {
			return "pre hook runs after a field assignment"
		}
		if !styleArg && dstPtr && allocIdx < 0 {
			return "destination allocation missing"
		}
	}
	if hookMask&2 != 0 {
		if lastAssign >= 0 && postIdx < lastAssign {
			return "post hook runs before the last field assignment"
		}
		if hookMask&1 != 0 && postIdx < preIdx {
			return "post hook runs before pre hook"
		}
		// nothing but the error check and the final return may follow
		for _, s := range stmts[postIdx+1:] {
			if isErrCheck(s) {
				continue
			}
			if _, ok := s.(*ast.ReturnStmt); ok {
				continue
			}
			return "statements follow the post hook"
		}
	}
	_ = nAssign
	return ""
}

// JudgeErrFlow: in every block, at any depth, a statement that assigns err is immediately followed
// by `if err != nil { return ... }`; err is only assigned when the function declares it; a
// function with results ends in return; the error-return inside the check returns the error.
func JudgeErrFlow(out string, retError, styleArg, dstPtr bool) string {
	fd, _, err := parseFunc(out)
	if err != nil {
		return "emitted function does not parse: " + err.Error()
	}
	declaresErr := false
	if fd.Type.Results != nil {
		for _, f := range fd.Type.Results.List {
			for _, n := range f.Names {
				if n.Name == "err" {
					declaresErr = true
				}
			}
		}
	}
	if declaresErr != retError {
		return fmt.Sprintf("err result declared=%v, function error capability=%v", declaresErr, retError)
	}
	verdict := ""
	var walk func(list []ast.Stmt)
	walk = func(list []ast.Stmt) {
		for i, s := range list {
			if verdict != "" {
				return
			}
			if assignsErr(s) {
				if !declaresErr {
					verdict = "err assigned in a function without error result: " + stmtString(s)
					return
				}
				if i+1 >= len(list) || !isErrCheck(list[i+1]) {
					verdict = "err assigned but not checked immediately: " + stmtString(s)
					return
				}
				// the return inside must propagate err: bare return (named result) or `return nil, err`
				ret := list[i+1].(*ast.IfStmt).Body.List[0].(*ast.ReturnStmt)
				if len(ret.Results) != 0 {
					last := types.ExprString(ret.Results[len(ret.Results)-1])
					if last != "err" {
						verdict = "error check does not return err"
						return
					}
					nres := 0
					if fd.Type.Results != nil {
						nres = fd.Type.Results.NumFields()
					}
					if len(ret.Results) != nres {
						verdict = "error return has wrong arity"
						return
					}
				}
			}
			switch st := s.(type) {
			case *ast.IfStmt:
				walk(st.Body.List)
				if b, ok := st.Else.(*ast.BlockStmt); ok {
					walk(b.List)
				}
			case *ast.ForStmt:
				walk(st.Body.List)
			case *ast.RangeStmt:
				walk(st.Body.List)
			case *ast.BlockStmt:
				walk(st.List)
			}
		}
	}
	walk(fd.Body.List)
	if verdict != "" {
		return verdict
	}
	if fd.Type.Results != nil && fd.Type.Results.NumFields() > 0 {
		n := len(fd.Body.List)
		if n == 0 {
			return "function with results has an empty body"
		}
		if _, ok := fd.Body.List[n-1].(*ast.ReturnStmt); !ok {
			return "function with results does not end in return"
		}
	}
	return ""
}

func stmtString(s ast.Stmt) string {
	switch st := s.(type) {
	case *ast.AssignStmt:
		var l, r []string
		for _, e := range st.Lhs {
			l = append(l, types.ExprString(e))
		}
		for _, e := range st.Rhs {
			r = append(r, types.ExprString(e))
		}
		return strings.Join(l, ", ") + " " + st.Tok.String() + " " + strings.Join(r, ", ")
	case *ast.ExprStmt:
		return types.ExprString(st.X)
	}
	return fmt.Sprintf("%T", s)
}
