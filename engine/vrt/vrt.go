// Package vrt is the verification runtime used by the harnesses in pkg/zz_verif.
//
// The symbolic executor (/verif/engine) intercepts these functions by name; the bodies
// below are the NATIVE semantics, used when a harness is compiled with
// `go test -tags verif -overlay ...` to replay a solver model against the real build:
// inputs then come from the replay table named by $VERIF_REPLAY.
package vrt

import (
	"encoding/json"
	"fmt"
	"os"
	"regexp"
	"strings"
	"sync"
	"syscall"
)

type replayTable struct {
	Harness string                 `json:"harness"`
	Inputs  map[string]interface{} `json:"inputs"`
}

var (
	once   sync.Once
	table  replayTable
	Failed []string // labels of assertions that failed natively
	Log    []string
	env    = map[string]interface{}{}
)

func load() {
	once.Do(func() {
		p := os.Getenv("VERIF_REPLAY")
		if p == "" {
			return
		}
		b, err := os.ReadFile(p)
		if err != nil {
			panic(err)
		}
		if err := json.Unmarshal(b, &table); err != nil {
			panic(err)
		}
	})
}

// Reset clears the per-run native state (used by the replay test driver).
func Reset() { Failed = nil; Log = nil; env = map[string]interface{}{} }

func lookup(name string) (interface{}, bool) {
	load()
	v, ok := table.Inputs[name]
	if !ok {
		Log = append(Log, "input not in replay table (zero value used): "+name)
	}
	return v, ok
}

// Bool returns an arbitrary boolean.
func Bool(name string) bool {
	v, _ := lookup(name)
	b, _ := v.(bool)
	return b
}

// Int returns an arbitrary integer in [lo,hi].
func Int(name string, lo, hi int) int {
	v, ok := lookup(name)
	if !ok {
		return lo
	}
	f, _ := v.(float64)
	return int(f)
}

// String returns an arbitrary byte string of at most maxLen bytes.
func String(name string, maxLen int) string {
	v, _ := lookup(name)
	s, _ := v.(string)
	return s
}

// Runes returns an arbitrary string of at most maxLen code points drawn from the alphabet Sigma.
func Runes(name string, maxLen int) string {
	n := Int(name+".len", 0, maxLen)
	r := make([]rune, n)
	for i := range r {
		r[i] = rune(Int(fmt.Sprintf("%s[%d]", name, i), 0, 0x10FFFF))
	}
	return string(r)
}

// Choose returns an arbitrary integer in [0,k).
func Choose(name string, k int) int {
	v, _ := lookup(name)
	f, _ := v.(float64)
	if int(f) < 0 || int(f) >= k {
		return 0
	}
	return int(f)
}

// Assume restricts the inputs; natively a false assumption means the replay table does not
// belong to this path.
func Assume(c bool) {
	if !c {
		Log = append(Log, "assumption false under replay")
		panic(assumeFailed{})
	}
}

type assumeFailed struct{}

// IsAssumeFailed reports whether a recovered panic value stems from Assume(false).
func IsAssumeFailed(p interface{}) bool { _, ok := p.(assumeFailed); return ok }

// Assert states a property.
func Assert(label string, c bool) {
	if !c {
		Failed = append(Failed, label)
	}
}

// AssertMsg is Assert with a detail string for reports.
func AssertMsg(label string, c bool, detail string) {
	if !c {
		Failed = append(Failed, label)
		Log = append(Log, label+": "+detail)
	}
}

// Observe records a per-path observation (cross-path obligations are engine-side).
func Observe(label string, v interface{}) {
	Log = append(Log, fmt.Sprintf("observe %s = %v", label, v))
}

// Reach marks a point that must be reachable (vacuity guard).
func Reach(label string) {}

// Symbolic reports whether the harness runs under the symbolic executor.
func Symbolic() bool { return false }

// IsConcrete reports whether v is fully concrete on this path (always true natively).
func IsConcrete(v interface{}) bool { return true }

// SetEnv configures an environment stub (flag values, environment variables, file-system mode).
func SetEnv(key string, v interface{}) { env[key] = v }

// GetEnv returns what SetEnv stored (native side of the environment stubs).
func GetEnv(key string) (interface{}, bool) { v, ok := env[key]; return v, ok }

// Effect / diagnostic traces exist only under the symbolic executor.
func EffectCount() int          { return 0 }
func EffectOp(i int) string     { return "" }
func EffectStr(i, j int) string { return "" }
func EffectInt(i, j int) int    { return 0 }
func DiagCount() int            { return 0 }
func DiagKind(i int) string     { return "" }
func DiagFormat(i int) string   { return "" }
func DiagArg(i, j int) string   { return "" }

// NativeFuncs are executed natively by the symbolic executor (concrete judges and oracles).
var NativeFuncs = map[string]interface{}{}

// Bytes returns an arbitrary ASCII string (bytes 1..127) of at most maxLen bytes. Under the
// symbolic executor its length is case-split and every byte is a symbolic integer.
func Bytes(name string, maxLen int) string {
	n := Int(name+".len", 0, maxLen)
	b := make([]byte, n)
	for i := range b {
		b[i] = byte(Int(fmt.Sprintf("%s[%d]", name, i), 1, 127))
	}
	return string(b)
}

// RefFoldEq is the reference meaning of "equal under Unicode (simple) case folding".
func RefFoldEq(a, b string) bool { return strings.EqualFold(a, b) }

// RefRegexpMatch is the reference meaning of "the RE2 expression finds a match in s".
func RefRegexpMatch(expr, s string) bool { return regexp.MustCompile(expr).MatchString(s) }

// RefRegexpValid reports whether expr is a valid RE2 expression.
func RefRegexpValid(expr string) bool { _, err := regexp.Compile(expr); return err == nil }

func init() { NativeFuncs["RefRegexpValid"] = RefRegexpValid }

// Or / And / Implies / Ite: boolean connectives that do not fork the symbolic executor
// (Go's || and && compile to branches).
func Or(a, b bool) bool      { return a || b }
func And(a, b bool) bool     { return a && b }
func Implies(a, b bool) bool { return !a || b }

// SkeletonPath returns the path of the setup file of a skeleton package. Natively the skeleton
// module is materialised (slots substituted according to the replay table) under $VERIF_SK_DIR.
func SkeletonPath(name string) string {
	root := os.Getenv("VERIF_SK_DIR")
	if root == "" {
		root = "/verif/skeletons"
	}
	return root + "/" + name + "/setup.go"
}

// CaptureStderr runs f and returns what was written to standard error meanwhile (natively file
// descriptor 2 is redirected, because convergen's loggers bind os.Stderr at start-up).
func CaptureStderr(f func()) string { return captureFd(2, f) }

// CaptureStdout runs f and returns what the process wrote to file descriptor 1 meanwhile
// (native replay only: the symbolic side observes print effects instead).
func CaptureStdout(f func()) string { return captureFd(1, f) }

func captureFd(fd int, f func()) string {
	tmp, err := os.CreateTemp("", "vrt-capture")
	if err != nil {
		f()
		return ""
	}
	defer os.Remove(tmp.Name())
	saved, err := syscall.Dup(fd)
	if err != nil {
		f()
		return ""
	}
	_ = syscall.Dup2(int(tmp.Fd()), fd)
	func() {
		defer func() {
			_ = syscall.Dup2(saved, fd)
			_ = syscall.Close(saved)
		}()
		f()
	}()
	b, _ := os.ReadFile(tmp.Name())
	tmp.Close()
	return string(b)
}

// Thorough reports whether the check runs in the thorough tier (deeper bounds).
func Thorough() bool { return os.Getenv("VERIF_TIER") == "thorough" }
