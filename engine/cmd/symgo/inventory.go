package main

// SSA inventories: sources of nondeterminism (C13) and file-system effect sites (C15) in
// convergen's own packages. A site that is not on the reviewed allow-list is reported as
// UNCOVERED (inconclusive), never as a violation and never silently accepted.

import (
	"fmt"
	"go/types"
	"sort"
	"strings"

	"golang.org/x/tools/go/ssa"

	"verif/engine/sym"
)

type site struct {
	Kind string
	Fn   string
	What string
}

func scanSites(ld *sym.Loaded) []site {
	var out []site
	var fns []*ssa.Function
	for path, p := range ld.SSA {
		own := path == modPath || strings.HasPrefix(path, modPath+"/")
		if !own && path != "github.com/matoous/go-nanoid" {
			continue
		}
		if strings.HasSuffix(path, "/pkg/zz_verif") || strings.HasSuffix(path, "/pkg/vrt") {
			continue
		}
		if path == "github.com/matoous/go-nanoid" {
			p.Build()
		}
		for _, m := range p.Members {
			if f, ok := m.(*ssa.Function); ok {
				fns = append(fns, f)
			}
			if t, ok := m.(*ssa.Type); ok {
				for _, ty := range []types.Type{t.Type(), types.NewPointer(t.Type())} {
					ms := ld.Engine.Prog.MethodSets.MethodSet(ty)
					for i := 0; i < ms.Len(); i++ {
						if f := ld.Engine.Prog.MethodValue(ms.At(i)); f != nil {
							fns = append(fns, f)
						}
					}
				}
			}
		}
	}
	seen := map[*ssa.Function]bool{}
	var visit func(f *ssa.Function)
	visit = func(f *ssa.Function) {
		if f == nil || seen[f] || f.Blocks == nil {
			return
		}
		seen[f] = true
		if strings.HasPrefix(f.Name(), "Verif") || strings.Contains(f.String(), "zz_verif") {
			return
		}
		for _, af := range f.AnonFuncs {
			visit(af)
		}
		for _, b := range f.Blocks {
			for _, in := range b.Instrs {
				switch in := in.(type) {
				case *ssa.Range:
					if _, ok := in.X.Type().Underlying().(*types.Map); ok {
						out = append(out, site{"map-range", f.String(), in.X.Type().String()})
					}
				case *ssa.Go:
					out = append(out, site{"goroutine", f.String(), "go"})
				case *ssa.Select:
					out = append(out, site{"select", f.String(), "select"})
				case ssa.CallInstruction:
					if callee := in.Common().StaticCallee(); callee != nil && callee.Pkg != nil && callee.Name() != "init" {
						pp := callee.Pkg.Pkg.Path()
						switch pp {
						case "time", "math/rand", "math/rand/v2", "crypto/rand", "runtime":
							out = append(out, site{"nondet-call", f.String(), callee.String()})
						case "os", "io/ioutil", "syscall", "os/exec", "io/fs", "path/filepath":
							out = append(out, site{"os-call", f.String(), callee.String()})
						case "github.com/matoous/go-nanoid":
							if !strings.HasPrefix(f.String(), "github.com/matoous/go-nanoid") {
								out = append(out, site{"random-id", f.String(), callee.String()})
							}
						}
					}
				}
			}
		}
	}
	for _, f := range fns {
		visit(f)
	}
	sort.Slice(out, func(i, j int) bool {
		return out[i].Kind+out[i].Fn+out[i].What < out[j].Kind+out[j].Fn+out[j].What
	})
	return out
}

// allow-lists: "kind|function|what" -> how the site is covered
var nondetAllow = map[string]string{
	"map-range|github.com/reedom/convergen/pkg/util.NewImportNames|github.com/reedom/convergen/pkg/util.ImportNames":           "order-independence decided by C13ImportTable",
	"map-range|(github.com/reedom/convergen/pkg/util.ImportNames).LookupPath|github.com/reedom/convergen/pkg/util.ImportNames": "order-independence decided by C13ImportTable",
	"map-range|github.com/reedom/convergen/pkg/parser.NewParser|github.com/reedom/convergen/pkg/util.ImportNames":              "collision test for blank imports: any collision yields \"_\", whatever the order; decided under every order by C13BlankImport",
	"random-id|(*github.com/reedom/convergen/pkg/parser.Parser).findConvergenEntries|github.com/matoous/go-nanoid.Nanoid":      "marker independence decided by C11MarkerSubstitution (content-independent-of-markers)",
	"nondet-call|github.com/matoous/go-nanoid.Format|crypto/rand.Read":                                                         "source of the random marker (see random-id)",
	"nondet-call|github.com/matoous/go-nanoid.Generate|crypto/rand.Read":                                                       "source of the random marker (see random-id)",
	"nondet-call|github.com/matoous/go-nanoid.Nanoid|crypto/rand.Read":                                                         "source of the random marker (see random-id)",
	"nondet-call|github.com/matoous/go-nanoid.ID|crypto/rand.Read":                                                             "source of the random marker (see random-id)",
}

var osAllow = map[string]string{
	"os-call|github.com/reedom/convergen/pkg/config.(*Config).ParseArgs|os.Getenv":         "input (GOFILE), C18ParseArgs",
	"os-call|(*github.com/reedom/convergen/pkg/config.Config).ParseArgs|os.Getenv":         "input (GOFILE), C18ParseArgs",
	"os-call|(*github.com/reedom/convergen/pkg/config.Config).ParseArgs|os.Exit":           "usage exit, C18NoInput",
	"os-call|github.com/reedom/convergen/pkg/parser.NewParser|os.Stat":                     "read-only",
	"os-call|github.com/reedom/convergen/pkg/parser.NewParser$1|os.Stat":                   "read-only",
	"os-call|github.com/reedom/convergen/pkg/parser.NewParser$1|os.SameFile":               "pure",
	"os-call|github.com/reedom/convergen/pkg/runner.Run|os.OpenFile":                       "log file, C15Run",
	"os-call|(*github.com/reedom/convergen/pkg/generator.Generator).Generate|os.WriteFile": "the output write, C15Run/C18Generate",
	"os-call|github.com/reedom/convergen/pkg/generator.replaceFile|os.CreateTemp":          "the temporary file next to the output, C15Run/C18Generate (temporary-file-next-to-the-target, renamed-or-removed)",
	"os-call|github.com/reedom/convergen/pkg/generator.replaceFile|(*os.File).Write":       "the one write of the result into the temporary file, C15Run/C18Generate",
	"os-call|github.com/reedom/convergen/pkg/generator.replaceFile|(*os.File).Close":       "C15Run/C18Generate",
	"os-call|github.com/reedom/convergen/pkg/generator.replaceFile|(*os.File).Name":        "pure",
	"os-call|github.com/reedom/convergen/pkg/generator.replaceFile|os.Chmod":               "mode of the temporary file before it takes the output's place, C15Run/C18Generate (write-mode)",
	"os-call|github.com/reedom/convergen/pkg/generator.replaceFile|os.Rename":              "the moment the output path is replaced, C15Run/C18Generate",
	"os-call|github.com/reedom/convergen/pkg/generator.replaceFile|os.Remove":              "removal of the temporary file after a failure, C15Run/C18Generate",
	"os-call|github.com/reedom/convergen/pkg/generator.replaceFile|path/filepath.Dir":      "pure path computation",
	"os-call|github.com/reedom/convergen/pkg/generator.replaceFile|path/filepath.Base":     "pure path computation",
	"os-call|github.com/reedom/convergen.main|os.Exit":                                     "exit status",
	"os-call|github.com/reedom/convergen/pkg/parser.NewParser|path/filepath.Abs":           "pure path computation for the loader's directory and query (reads the working directory, writes nothing), C12LoaderHook load.call",
	"os-call|github.com/reedom/convergen/pkg/parser.NewParser|path/filepath.Dir":           "pure path computation",
	"os-call|github.com/reedom/convergen/pkg/parser.blankOverlay|os.Stat":                  "read-only (directory identity), C12LoaderHook",
	"os-call|github.com/reedom/convergen/pkg/parser.blankOverlay|os.SameFile":              "pure",
	"os-call|github.com/reedom/convergen/pkg/parser.blankOverlay|path/filepath.Join":       "pure path computation",
	"os-call|github.com/reedom/convergen/pkg/parser.blankOverlay|path/filepath.Base":       "pure path computation",
	"os-call|github.com/reedom/convergen/pkg/parser.blankOverlay|path/filepath.Abs":        "pure path computation for the loader overlay key (reads the working directory, writes nothing)",
	"os-call|github.com/reedom/convergen/pkg/parser.blankOverlay|path/filepath.Dir":        "pure path computation",
}

func inventoryCheck(ld *sym.Loaded, kind string) (rows []string, uncovered []string) {
	for _, s := range scanSites(ld) {
		key := s.Kind + "|" + s.Fn + "|" + s.What
		switch kind {
		case "nondet":
			if s.Kind == "os-call" {
				// environment reads that could make output depend on the process environment
				if strings.HasSuffix(s.What, "os.Getpid") || strings.HasSuffix(s.What, "os.Getwd") || strings.HasSuffix(s.What, "os.Hostname") ||
					strings.HasSuffix(s.What, "os.Environ") || strings.HasSuffix(s.What, "os.Getppid") || strings.HasSuffix(s.What, "os.LookupEnv") {
					uncovered = append(uncovered, "UNCOVERED-SOURCE "+key)
				}
				continue
			}
			if how, ok := nondetAllow[key]; ok {
				rows = append(rows, key+" => "+how)
			} else {
				uncovered = append(uncovered, "UNCOVERED-SOURCE "+key)
			}
		case "fseffects":
			if s.Kind != "os-call" {
				continue
			}
			if how, ok := osAllow[key]; ok {
				rows = append(rows, key+" => "+how)
			} else {
				uncovered = append(uncovered, "UNCOVERED-EFFECT "+key)
			}
		}
	}
	if len(rows) == 0 {
		uncovered = append(uncovered, fmt.Sprintf("inventory %s found no site at all (scanner broken?)", kind))
	}
	return
}
