// symgo: solver-based checks of reedom/convergen (see /verif/DESIGN.md).
package main

import (
	"encoding/json"
	"flag"
	"fmt"
	"golang.org/x/tools/go/ssa"
	"os"
	"path/filepath"
	"sort"
	"strconv"
	"strings"
	"time"

	"verif/engine/sym"
)

const (
	verifDir = "/verif"
	modPath  = "github.com/reedom/convergen"
)

// repoDir is /repo; tools/seed_eval.sh points it at a scratch worktree (VERIF_REPO) so that seeded
// changes can be evaluated without touching /repo itself. Registered checks never set it.
var repoDir = func() string {
	if d := os.Getenv("VERIF_REPO"); d != "" {
		return d
	}
	return "/repo"
}()

func init() {
	// hard wall-clock guard: a hung run must not look like success
	d := 40 * time.Minute
	if v := os.Getenv("VERIF_DEADLINE_MIN"); v != "" {
		if n, err := strconv.Atoi(v); err == nil {
			d = time.Duration(n) * time.Minute
		}
	}
	go func() {
		time.Sleep(d)
		fmt.Println("INCONCLUSIVE deadline exceeded")
		os.Exit(2)
	}()
}

func main() {
	if len(os.Args) < 2 {
		fmt.Fprintln(os.Stderr, "usage: symgo check <property> <quick|thorough> | symgo run <harness> [-trace] | symgo replay <property> <path>")
		os.Exit(2)
	}
	switch os.Args[1] {
	case "check":
		if len(os.Args) < 4 {
			fmt.Fprintln(os.Stderr, "usage: symgo check <property> <quick|thorough>")
			os.Exit(2)
		}
		os.Exit(cmdCheck(os.Args[2], os.Args[3]))
	case "run":
		fs := flag.NewFlagSet("run", flag.ExitOnError)
		trace := fs.Bool("trace", false, "trace instructions")
		workers := fs.Int("workers", 8, "workers")
		mapOrder := fs.Bool("maporder", false, "explore map iteration orders")
		maxPaths := fs.Int("maxpaths", 0, "path bound")
		fs.Parse(os.Args[2:])
		os.Exit(cmdRun(fs.Args(), *trace, *workers, *mapOrder, *maxPaths))
	case "e2e-regen":
		bad, out := e2eRegen(nil)
		fmt.Print(out)
		if bad {
			os.Exit(1)
		}
		os.Exit(0)
	case "replay":
		if len(os.Args) < 4 {
			fmt.Fprintln(os.Stderr, "usage: symgo replay <property> <path>")
			os.Exit(2)
		}
		os.Exit(cmdReplay(os.Args[2], os.Args[3]))
	default:
		fmt.Fprintln(os.Stderr, "unknown command", os.Args[1])
		os.Exit(2)
	}
}

func seed() int64 {
	if s := os.Getenv("VERIF_SEED"); s != "" {
		if v, err := strconv.ParseInt(s, 10, 64); err == nil {
			return v
		}
	}
	return 1
}

func overlay() (map[string][]byte, error) {
	ov := map[string][]byte{}
	if err := sym.OverlayFromDirs(ov, filepath.Join(verifDir, "harness/zz_verif"), filepath.Join(repoDir, "pkg/zz_verif")); err != nil {
		return nil, err
	}
	if err := sym.OverlayFromDirs(ov, filepath.Join(verifDir, "engine/vrt"), filepath.Join(repoDir, "pkg/vrt")); err != nil {
		return nil, err
	}
	for virt, real := range inPkgOverlay() {
		b, err := os.ReadFile(real)
		if err != nil {
			return nil, err
		}
		ov[virt] = b
	}
	return ov, nil
}

func loadRepo() (*sym.Loaded, error) {
	ov, err := overlay()
	if err != nil {
		return nil, err
	}
	ld, err := sym.Load(sym.LoadConfig{
		RepoDir:    repoDir,
		Patterns:   []string{"./pkg/zz_verif", "."},
		Tags:       "verif",
		InterpPref: []string{modPath},
	}, ov)
	if err != nil {
		return nil, err
	}
	configureEngine(ld.Engine)
	return ld, nil
}

func cmdRun(names []string, trace bool, workers int, mapOrder bool, maxPaths int) int {
	ld, err := loadRepo()
	if err != nil {
		fmt.Fprintln(os.Stderr, "LOAD-ERROR:", err)
		return 2
	}
	ld.Engine.Trace = trace
	hp := ld.SSA[modPath+"/pkg/zz_verif"]
	rc := 0
	defer cleanupCorpus()
	for _, n := range names {
		fn := hp.Func(n)
		if fn == nil {
			if mp := ld.SSA[modPath]; mp != nil {
				fn = mp.Func(n) // a harness injected into package main
			}
		}
		eng := ld.Engine
		if parts := strings.SplitN(n, ".", 2); len(parts) == 2 {
			w := getCorpus()
			if w.err != nil {
				fmt.Fprintln(os.Stderr, "CORPUS-ERROR:", w.err)
				return 2
			}
			if pkg := w.ld.SSA[corpusMod+"/"+parts[0]]; pkg != nil {
				fn = pkg.Func(parts[1])
			}
			eng = w.ld.Engine
			eng.Trace = trace
		}
		if fn == nil {
			fmt.Fprintln(os.Stderr, "no harness", n)
			return 2
		}
		var st sym.SolverStats
		opts := sym.HarnessOpts{Workers: workers, MapOrder: mapOrder, MaxPaths: maxPaths}
		if spec := findSpec(n); spec != nil {
			opts.CrossPath = spec.CrossPath
			if spec.MapOrder {
				opts.MapOrder = true
			}
		}
		res := eng.Explore(fn, opts, &st)
		printResult(res, &st)
		if len(res.Violations) > 0 {
			rc = 1
		} else if len(res.Inconclusive) > 0 && rc == 0 {
			rc = 2
		}
	}
	return rc
}

func printResult(res *sym.HarnessResult, st *sym.SolverStats) {
	fmt.Printf("harness %s: paths=%d forks=%d outcomes=%v obligations=%d discharged=%d violations=%d inconclusive=%d cross=%d wall=%.1fs solver{queries=%d sat=%d unsat=%d unknown=%d %.1fs}\n",
		res.Name, res.Paths, res.Forks, res.Outcomes, res.Obligations, res.Discharged, len(res.Violations), len(res.Inconclusive), res.CrossChecks,
		res.Wall.Seconds(), st.Queries, st.Sat, st.Unsat, st.Unknown, float64(st.Nanos)/1e9)
	var labels []string
	for l := range res.AssertStats {
		labels = append(labels, l)
	}
	sort.Strings(labels)
	for _, l := range labels {
		fmt.Printf("  assert %-40s %v\n", l, res.AssertStats[l])
	}
	seen := map[string]int{}
	for _, v := range res.Violations {
		seen[v.Label]++
		if seen[v.Label] <= 3 {
			mj, _ := json.Marshal(v.Model)
			fmt.Printf("  VIOLATED %s model=%s detail=%s\n", v.Label, mj, clip(v.Detail, 400))
			for _, o := range v.Obs {
				fmt.Printf("      obs %s\n", clip(o, 1500))
			}
		}
	}
	incs := map[string]int{}
	for _, s := range res.Inconclusive {
		incs[clip(s, 300)]++
	}
	for s, n := range incs {
		fmt.Printf("  INCONCLUSIVE x%d %s\n", n, s)
	}
	for _, v := range res.Vacuous {
		fmt.Printf("  VACUOUS %s\n", v)
	}
}

func clip(s string, n int) string {
	if len(s) > n {
		return s[:n] + "…"
	}
	return s
}

// ---------------------------------------------------------------- check

type knownFinding struct {
	ID            string                 `json:"id"`
	Property      string                 `json:"property"`
	Status        string                 `json:"status"` // known | fixed
	Harness       string                 `json:"harness"`
	Assertion     string                 `json:"assertion"`
	Discriminator map[string]interface{} `json:"discriminator"`
	What          string                 `json:"what"`
	Commit        string                 `json:"commit,omitempty"`
}

func loadKnown() []knownFinding {
	b, err := os.ReadFile(filepath.Join(verifDir, "known_findings.json"))
	if err != nil {
		return nil
	}
	var k []knownFinding
	if err := json.Unmarshal(b, &k); err != nil {
		fmt.Fprintln(os.Stderr, "known_findings.json:", err)
		os.Exit(2)
	}
	return k
}

func matchKnown(k knownFinding, v sym.Violation) bool {
	if k.Status != "known" || k.Harness != v.Harness {
		return false
	}
	if k.Assertion != "" && k.Assertion != v.Label {
		return false
	}
	for name, want := range k.Discriminator {
		got, ok := v.Model[name]
		if !ok {
			return false
		}
		if fmt.Sprint(got) != fmt.Sprint(want) {
			return false
		}
	}
	return true
}

func cmdCheck(prop, tier string) int {
	start := time.Now()
	specs := specsFor(prop, tier)
	// development aid (never set by a registered command): run only the named harnesses; the
	// evidence of such a run says so through its harness list
	if only := os.Getenv("VERIF_ONLY"); only != "" {
		var sel []*HarnessSpec
		for _, sp := range specs {
			for _, n := range strings.Split(only, ",") {
				if sp.Name == n {
					sel = append(sel, sp)
				}
			}
		}
		specs = sel
	}
	if len(specs) == 0 {
		fmt.Fprintln(os.Stderr, "no harness registered for", prop)
		return 2
	}
	ld, err := loadRepo()
	if err != nil {
		fmt.Fprintln(os.Stderr, "LOAD-ERROR:", err)
		return 2
	}
	loadWall := time.Since(start)
	hp := ld.SSA[modPath+"/pkg/zz_verif"]
	known := loadKnown()
	var (
		total      sym.SolverStats
		results    []*sym.HarnessResult
		violations []sym.Violation
		knownHits  = map[string]int{}
		inconcl    []string
		replayed   int
		validated  int
	)
	defer cleanupReplayBinary()
	sd := seed()
	ld.Engine.SamplePath = func(dec []int) bool {
		h := uint64(1469598103934665603) ^ uint64(sd)
		for _, d := range dec {
			h = (h ^ uint64(d+1)) * 1099511628211
		}
		zero := true
		for _, d := range dec {
			if d != 0 {
				zero = false
			}
		}
		return h%11 == 0 || zero
	}
	corpusViolations, rcCorpus := 0, 0
	regenValidated := false
	type job struct {
		sp   *HarnessSpec
		eng  *sym.Engine
		fn   *ssa.Function
		name string
	}
	var jobs []job
	for _, sp := range specs {
		if strings.HasPrefix(sp.Name, "G:") {
			w := getCorpus()
			if w.err != nil {
				fmt.Fprintln(os.Stderr, "CORPUS-ERROR:", w.err)
				inconcl = append(inconcl, "corpus: "+clip(w.err.Error(), 400))
				continue
			}
			cs := strings.TrimPrefix(sp.Name, "G:")
			if why, bad := w.caseFail[cs]; bad {
				// the tool's output for a well-formed corpus case is unusable: a violation by itself
				dir := filepath.Join(replayRoot(), prop, "corpus-"+cs)
				os.RemoveAll(dir)
				copyTree(filepath.Join(w.dir, "failed_"+cs), dir)
				os.WriteFile(filepath.Join(dir, "observed.txt"), []byte(why+"\n\n"+w.toolLog[cs]), 0644)
				os.WriteFile(filepath.Join(dir, "model.json"), []byte(fmt.Sprintf("{\"harness\": \"corpus:%s\", \"failed\": \"corpus-case-generates-and-compiles\", \"inputs\": {}}", cs)), 0644)
				fmt.Printf("VIOLATION property=%s replay=%s\n  %s\n", prop, dir, clip(why, 400))
				corpusViolations++
				continue
			}
			pkg := w.ld.SSA[corpusMod+"/"+cs]
			if pkg == nil {
				fmt.Fprintf(os.Stderr, "HARNESS-MISSING corpus case %s\n", cs)
				return 2
			}
			var names []string
			for n := range pkg.Members {
				if strings.HasPrefix(n, "G_") {
					names = append(names, n)
				}
			}
			sort.Strings(names)
			for _, n := range names {
				jobs = append(jobs, job{sp, w.ld.Engine, pkg.Func(n), cs + "." + n})
			}
			continue
		}
		fn := hp.Func(sp.Name)
		if sp.Pkg == "." {
			if mp := ld.SSA[modPath]; mp != nil {
				fn = mp.Func(sp.Name)
			}
		}
		if fn == nil {
			fmt.Fprintf(os.Stderr, "HARNESS-MISSING %s\n", sp.Name)
			return 2
		}
		jobs = append(jobs, job{sp, ld.Engine, fn, sp.Name})
	}
	defer cleanupCorpus()
	if corpusViolations > 0 {
		rcCorpus = 1
	}
	var jobSpecs []*HarnessSpec
	for _, jb := range jobs {
		sp := jb.sp
		jobSpecs = append(jobSpecs, sp)
		opts := sym.HarnessOpts{Workers: 14, MapOrder: sp.MapOrder, CrossPath: sp.CrossPath}
		if tier == "thorough" {
			jb.eng.TimeoutMs = 60000
			jb.eng.CrossCheck = 25
		}
		jb.eng.SamplePath = ld.Engine.SamplePath
		os.Setenv("VERIF_TIER", tier)
		res := jb.eng.Explore(jb.fn, opts, &total)
		res.Name = jb.name
		for i := range res.Violations {
			res.Violations[i].Harness = jb.name
		}
		results = append(results, res)
		printResult(res, &sym.SolverStats{})
		if sp.Replay == "e2e-regen" && !regenValidated {
			regenValidated = true
			if bad, out := e2eRegen(nil); bad {
				inconcl = append(inconcl, "ENCODER-MISMATCH (e2e validation) "+sp.Name+": the real binary does not regenerate as on an empty path: "+clip(out, 300))
			} else {
				validated++
			}
		}
		if sp.Replay == "e2e-layout" {
			// validation: solver-chosen layouts on assertion-clean paths must be accepted end to end
			for i, vs := range res.Validation {
				if i >= 6 {
					break
				}
				if bad, out := e2eLayout(vs.Model); bad {
					inconcl = append(inconcl, "ENCODER-MISMATCH (e2e validation) "+sp.Name+": the layout invariant holds but the real binary rejects the rendered file: "+clip(out, 600))
				} else {
					validated++
				}
			}
		}
		if sp.Replay == "e2e-cli" {
			for i, vs := range res.Validation {
				if i >= 3 {
					break
				}
				if bad, out := e2eCLI(vs.Model); bad {
					inconcl = append(inconcl, "ENCODER-MISMATCH (e2e validation) "+sp.Name+": the real binary deviates on an assertion-clean path: "+clip(out, 300))
				} else {
					validated++
				}
			}
		}
		if sp.Replay == "" || sp.Replay == "native" {
			n, mism := validateSamples(res)
			validated += n
			for _, m := range mism {
				inconcl = append(inconcl, "ENCODER-MISMATCH (validation replay) "+m)
			}
		}
		for _, v := range res.Violations {
			matched := false
			for _, k := range known {
				if matchKnown(k, v) {
					knownHits[k.ID]++
					matched = true
					break
				}
			}
			if !matched {
				violations = append(violations, v)
			}
		}
		for _, s := range res.Inconclusive {
			inconcl = append(inconcl, jb.name+": "+s)
		}
		for _, s := range res.Vacuous {
			inconcl = append(inconcl, jb.name+": VACUOUS "+s)
		}
		for _, l := range sp.MustReach {
			if res.Reached[l] == 0 {
				inconcl = append(inconcl, jb.name+": VACUOUS label never reached: "+l)
			}
		}
	}
	specs = jobSpecs
	// SSA inventories
	var invRows []string
	for _, kind := range inventoriesFor(prop) {
		rows, unc := inventoryCheck(ld, kind)
		invRows = append(invRows, rows...)
		inconcl = append(inconcl, unc...)
	}
	inventoryRows = invRows
	// known findings
	for _, k := range known {
		if k.Status == "known" && knownHits[k.ID] > 0 {
			fmt.Printf("KNOWN-FINDING: property=%s %s (%s; %d path(s))\n", prop, k.What, k.ID, knownHits[k.ID])
		}
	}
	// replay + report violations (deduplicated by harness+label)
	rc := rcCorpus
	reported := map[string]bool{}
	var replayNotes []string
	for _, v := range violations {
		key := v.Harness + "|" + v.Label
		if reported[key] {
			continue
		}
		reported[key] = true
		path, ok, note := replayViolation(prop, v)
		replayed++
		replayNotes = append(replayNotes, note)
		if ok {
			fmt.Printf("VIOLATION property=%s replay=%s\n", prop, path)
			fmt.Printf("  harness=%s assertion=%s %s\n", v.Harness, v.Label, clip(v.Detail, 300))
			rc = 1
		} else {
			fmt.Printf("ENCODER-MISMATCH property=%s harness=%s assertion=%s: model did not reproduce natively (%s)\n", prop, v.Harness, v.Label, note)
			inconcl = append(inconcl, "replay mismatch "+v.Harness+"/"+v.Label)
		}
	}
	writeEvidence(prop, tier, specs, results, &total, time.Since(start), loadWall, len(reported), inconcl, knownHits, replayed+validated, replayNotes)
	if rc == 0 && len(inconcl) > 0 {
		seen := map[string]bool{}
		for _, s := range inconcl {
			if !seen[s] {
				seen[s] = true
				fmt.Println("INCONCLUSIVE", clip(s, 400))
			}
		}
		return 2
	}
	if rc == 0 {
		fmt.Printf("OK property=%s tier=%s harnesses=%d wall=%.1fs\n", prop, tier, len(specs), time.Since(start).Seconds())
	}
	return rc
}

var inventoryRows []string

func inventoriesFor(prop string) []string {
	switch prop {
	case "C13":
		return []string{"nondet"}
	case "C15":
		return []string{"fseffects"}
	}
	return nil
}

func writeEvidence(prop, tier string, specs []*HarnessSpec, results []*sym.HarnessResult, st *sym.SolverStats, wall, loadWall time.Duration,
	nviol int, inconcl []string, knownHits map[string]int, replayed int, replayNotes []string) {
	states, transitions, obligations, discharged, cross := 0, 0, 0, 0, 0
	secAgree, secUnknown := 0, 0
	funcs := map[string]bool{}
	stubs := map[string]bool{}
	var samples []interface{}
	var harnessRows []interface{}
	var assumptions []string
	bounds := map[string]string{}
	for i, r := range results {
		states += r.Paths
		transitions += r.Forks
		obligations += r.Obligations
		discharged += r.Discharged
		cross += r.CrossChecks
		secAgree += r.CrossAgree
		secUnknown += r.CrossUnknown
		for f := range r.Funcs {
			if strings.Contains(f, modPath) && !strings.Contains(f, "/pkg/zz_verif") && !strings.Contains(f, "/pkg/vrt") {
				funcs[f] = true
			}
		}
		for s := range r.Stubs {
			stubs[s] = true
		}
		for k, s := range r.Samples {
			if k < 3 {
				samples = append(samples, map[string]interface{}{"harness": r.Name, "path": s})
			}
		}
		harnessRows = append(harnessRows, map[string]interface{}{
			"harness": r.Name, "paths": r.Paths, "forks": r.Forks, "outcomes": r.Outcomes, "obligations": r.Obligations,
			"discharged": r.Discharged, "assertions": r.AssertStats, "cross_path_queries": r.CrossChecks, "wall_s": r.Wall.Seconds(),
			"unknown_feasibility_answers": r.UnknownFeas, "reached": r.Reached, "what": specs[i].What,
		})
		bounds[r.Name] = specs[i].Bounds
		assumptions = append(assumptions, specs[i].Assumes...)
	}
	if transitions == 0 {
		transitions = 1
	}
	fl := keys(funcs)
	sl := keys(stubs)
	ev := map[string]interface{}{
		"property_id": prop,
		"tier":        tier,
		"seed":        seed(),
		"level":       "model_checking",
		"coverage": map[string]interface{}{
			"states":                        states,
			"transitions":                   transitions,
			"traces_validated_against_impl": replayed,
			"samples":                       samples,
			"obligations":                   obligations,
			"discharged":                    discharged,
			"cross_path_queries":            cross,
			"exhaustive":                    len(inconcl) == 0,
			"explanation":                   "states = feasible execution paths of the harnessed real functions explored by the SMT-guided symbolic executor (every symbolic branch decided by a solver query; all feasible alternatives explored within the stated bounds); transitions = fork decisions; obligations = assertion/panic-freedom/cross-path queries, discharged = answered unsat (or concretely true on the path).",
			"functions_encoded":             fl,
			"stubs_and_natives_hit":         sl,
			"bounds":                        bounds,
			"harnesses":                     harnessRows,
			"solver":                        map[string]interface{}{"primary": "z3 5.1.0 (z3-new -in, incremental push/pop)", "queries": st.Queries, "sat": st.Sat, "unsat": st.Unsat, "unknown": st.Unknown, "seconds": float64(st.Nanos) / 1e9, "restarts": st.Restarts},
			"second_solver_cross_check":     map[string]interface{}{"solvers": "z3 4.8.12, cvc5 1.0 (thorough tier: a deterministic 1-in-25 sample of the solver-discharged obligations)", "agreeing_answers": secAgree, "unknown_or_timeout": secUnknown, "contradictions": "reported as inconclusive"},
			"inconclusive":                  inconcl,
			"known_findings_hit":            knownHits,
			"replay_notes":                  replayNotes,
			"load_s":                        loadWall.Seconds(),
			"ssa_inventory":                 inventoryRows,
		},
		"assumptions": dedup(assumptions),
		"wall_s":      wall.Seconds(),
		"violations":  nviol,
	}
	evDir := filepath.Join(verifDir, "evidence")
	if d := os.Getenv("VERIF_EVIDENCE_DIR"); d != "" {
		evDir = d // tools/seed_eval.sh only: runs on a changed tree must not overwrite the evidence
	}
	os.MkdirAll(evDir, 0755)
	b, _ := json.MarshalIndent(ev, "", " ")
	os.WriteFile(filepath.Join(evDir, prop+".json"), b, 0644)
}

func keys(m map[string]bool) []string {
	var l []string
	for k := range m {
		l = append(l, k)
	}
	sort.Strings(l)
	return l
}

func dedup(l []string) []string {
	seen := map[string]bool{}
	var out []string
	for _, s := range l {
		if !seen[s] {
			seen[s] = true
			out = append(out, s)
		}
	}
	if out == nil {
		out = []string{}
	}
	return out
}
