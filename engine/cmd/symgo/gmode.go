package main

// Mode G: the tool built from /repo's current tree is RUN on the corpus; the generated functions
// are executed symbolically next to hand-written reference functions.

import (
	"bytes"
	"fmt"
	"go/ast"
	"go/parser"
	"go/token"
	"go/types"
	"os"
	"os/exec"
	"path/filepath"
	"sort"
	"strings"
	"sync"

	"verif/engine/sym"
)

const corpusMod = "verifcorpus"

type corpusWorld struct {
	caseFail map[string]string // corpus case -> why the tool's output is unusable (rejected / does not compile)
	dir      string
	ld       *sym.Loaded
	err      error
	toolLog  map[string]string
	replayMu sync.Mutex
	bins     map[string]string
}

var (
	corpusOnce sync.Once
	corpus     *corpusWorld
)

func copyTree(src, dst string) error {
	return filepath.Walk(src, func(p string, info os.FileInfo, err error) error {
		if err != nil {
			return err
		}
		rel, _ := filepath.Rel(src, p)
		if info.IsDir() {
			return os.MkdirAll(filepath.Join(dst, rel), 0755)
		}
		b, err := os.ReadFile(p)
		if err != nil {
			return err
		}
		return os.WriteFile(filepath.Join(dst, rel), b, 0644)
	})
}

func corpusCases(dir string) []string {
	var out []string
	ents, _ := os.ReadDir(dir)
	for _, e := range ents {
		if e.IsDir() && e.Name() != "vrt" {
			if _, err := os.Stat(filepath.Join(dir, e.Name(), "setup.go")); err == nil {
				out = append(out, e.Name())
			}
		}
	}
	sort.Strings(out)
	return out
}

func getCorpus() *corpusWorld {
	corpusOnce.Do(func() {
		w := &corpusWorld{toolLog: map[string]string{}, bins: map[string]string{}, caseFail: map[string]string{}}
		corpus = w
		dir, err := os.MkdirTemp("", "symgo-corpus")
		if err != nil {
			w.err = err
			return
		}
		w.dir = dir
		if w.err = copyTree(filepath.Join(verifDir, "corpus"), dir); w.err != nil {
			return
		}
		if w.err = copyTree(filepath.Join(verifDir, "engine/vrt"), filepath.Join(dir, "vrt")); w.err != nil {
			return
		}
		bin, err := buildTool(dir)
		if err != nil {
			w.err = err
			return
		}
		for _, c := range corpusCases(dir) {
			cmd := exec.Command(bin, "setup.go")
			cmd.Dir = filepath.Join(dir, c)
			cmd.Env = goEnv()
			out, err := cmd.CombinedOutput()
			w.toolLog[c] = string(out)
			fail := ""
			if err == nil {
				// determinism (C13): a second run in a fresh process must write the same bytes
				first, _ := os.ReadFile(filepath.Join(dir, c, "setup.gen.go"))
				cmd2 := exec.Command(bin, "setup.go")
				cmd2.Dir = filepath.Join(dir, c)
				cmd2.Env = goEnv()
				out2, err2 := cmd2.CombinedOutput()
				second, _ := os.ReadFile(filepath.Join(dir, c, "setup.gen.go"))
				if err2 != nil || string(first) != string(second) || string(out) != string(out2) {
					fail = fmt.Sprintf("two runs of convergen on corpus case %s differ (exit/diagnostics/output bytes)", c)
				}
			}
			if fail != "" {
			} else if err != nil {
				fail = fmt.Sprintf("convergen rejects the well-formed corpus case %s: %v\n%s", c, err, clip(string(out), 600))
			} else if err := genHarness(filepath.Join(dir, c)); err != nil {
				fail = fmt.Sprintf("corpus case %s: %v", c, err)
			} else {
				b := exec.Command("go", "vet", "./"+c)
				b.Dir = dir
				b.Env = goEnv()
				if bout, err := b.CombinedOutput(); err != nil {
					fail = fmt.Sprintf("the code generated for corpus case %s does not compile:\n%s", c, clip(string(bout), 800))
				}
			}
			if fail != "" {
				w.caseFail[c] = fail
				// keep the artefacts for the report, exclude the case from the SSA load
				keep := filepath.Join(dir, "failed_"+c)
				os.Rename(filepath.Join(dir, c), keep)
				os.WriteFile(filepath.Join(keep, "go.mod"), []byte("module failedcase\n"), 0644)
			}
		}
		os.Remove(bin)
		ld, err := sym.Load(sym.LoadConfig{RepoDir: dir, Patterns: []string{"./..."}, InterpPref: []string{corpusMod}}, nil)
		if err != nil {
			w.err = err
			return
		}
		configureEngine(ld.Engine)
		sym.GModeStubs(ld.Engine.Stubs, modPath+"/pkg/vrt.")
		sym.AliasStubs(ld.Engine.Stubs, modPath+"/pkg/vrt.", corpusMod+"/vrt.")
		w.ld = ld
	})
	return corpus
}

func cleanupCorpus() {
	if corpus != nil && corpus.dir != "" {
		os.RemoveAll(corpus.dir)
	}
}

type operand struct {
	name, typ string
	ptr       bool
}

func exprStr(e ast.Expr) string { return types.ExprString(e) }

func b2i(b bool) int {
	if b {
		return 1
	}
	return 0
}

// genHarness writes zz_g_harness.go and zz_replay_test.go into a corpus case directory.
func genHarness(dir string) error {
	fset := token.NewFileSet()
	gen, err := parser.ParseFile(fset, filepath.Join(dir, "setup.gen.go"), nil, 0)
	if err != nil {
		return fmt.Errorf("generated file does not parse: %v", err)
	}
	ref, err := parser.ParseFile(fset, filepath.Join(dir, "ref.go"), nil, 0)
	if err != nil {
		return err
	}
	refs := map[string]bool{}
	for _, d := range ref.Decls {
		if fd, ok := d.(*ast.FuncDecl); ok {
			refs[fd.Name.Name] = true
		}
	}
	hasTrace := false
	pkgFiles, _ := filepath.Glob(filepath.Join(dir, "*.go"))
	for _, f := range pkgFiles {
		b, _ := os.ReadFile(f)
		if bytes.Contains(b, []byte("\nvar Trace []string")) {
			hasTrace = true
		}
	}
	var sb strings.Builder
	fmt.Fprintf(&sb, "// Code generated by symgo (mode G harnesses). DO NOT EDIT.\n\npackage %s\n\nimport \"%s/vrt\"\n\n", gen.Name.Name, corpusMod)
	var names []string
	for _, d := range gen.Decls {
		fd, ok := d.(*ast.FuncDecl)
		if !ok {
			continue
		}
		m := fd.Name.Name
		if refs["manual_"+m] {
			continue // judged by a hand-written G_Extra_ harness only (more than one right outcome)
		}
		if !refs["ref_"+m] {
			return fmt.Errorf("no reference function ref_%s for generated function %s", m, m)
		}
		names = append(names, m)
		var ops []operand // receiver first (if any), then parameters
		hasRecv := fd.Recv != nil
		collect := func(fl *ast.FieldList, prefix string) {
			for i, f := range fl.List {
				t := f.Type
				isPtr := false
				if st, ok := t.(*ast.StarExpr); ok {
					isPtr = true
					t = st.X
				}
				ns := f.Names
				if len(ns) == 0 {
					ns = []*ast.Ident{ast.NewIdent(fmt.Sprintf("%s%d", prefix, i))}
				}
				for _, n := range ns {
					ops = append(ops, operand{n.Name, exprStr(t), isPtr})
				}
			}
		}
		if hasRecv {
			collect(fd.Recv, "recv")
		}
		collect(fd.Type.Params, "p")
		nres := 0
		hasErr := false
		if fd.Type.Results != nil {
			for _, f := range fd.Type.Results.List {
				k := len(f.Names)
				if k == 0 {
					k = 1
				}
				nres += k
				if exprStr(f.Type) == "error" {
					hasErr = true
				}
			}
		}
		fmt.Fprintf(&sb, "// G_%s: %s against ref_%s on arbitrary operands.\nfunc G_%s() {\n", m, m, m, m)
		for _, o := range ops {
			for k := 1; k <= 3; k++ {
				arb := "Arbitrary"
				if nres-b2i(hasErr) == 0 && (o.name == "dst" || o.name == "d") {
					arb = "ArbitrarySmall" // previous state of the destination in arg style
				}
				fmt.Fprintf(&sb, "\tvar %s_%d %s\n\tvrt.%s(%q, &%s_%d)\n", o.name, k, o.typ, arb, o.name, o.name, k)
			}
		}
		call := func(k int, fname string) string {
			var args []string
			start := 0
			recv := ""
			if hasRecv {
				o := ops[0]
				recv = fmt.Sprintf("%s_%d.", o.name, k)
				if o.ptr {
					recv = fmt.Sprintf("(&%s_%d).", o.name, k)
				}
				start = 1
			}
			for _, o := range ops[start:] {
				if o.ptr {
					args = append(args, fmt.Sprintf("&%s_%d", o.name, k))
				} else {
					args = append(args, fmt.Sprintf("%s_%d", o.name, k))
				}
			}
			return recv + fname + "(" + strings.Join(args, ", ") + ")"
		}
		resVars := func(k int) string {
			var rs []string
			for i := 0; i < nres; i++ {
				rs = append(rs, fmt.Sprintf("r%d_%d", i, k))
			}
			return strings.Join(rs, ", ")
		}
		if hasTrace {
			sb.WriteString("\tTrace = nil\n")
		}
		if nres > 0 {
			fmt.Fprintf(&sb, "\t%s := %s\n", resVars(1), call(1, m))
		} else {
			fmt.Fprintf(&sb, "\t%s\n", call(1, m))
		}
		if hasTrace {
			sb.WriteString("\tt1 := Trace\n\tTrace = nil\n")
		}
		if nres > 0 {
			fmt.Fprintf(&sb, "\t%s := %s\n", resVars(2), call(2, "ref_"+m))
		} else {
			fmt.Fprintf(&sb, "\t%s\n", call(2, "ref_"+m))
		}
		if hasTrace {
			sb.WriteString("\tt2 := Trace\n\tTrace = nil\n\tvrt.AssertEqual(\"user-function-call-trace\", t1, t2)\n")
		}
		okCond := "true"
		if hasErr {
			e := nres - 1
			fmt.Fprintf(&sb, "\tvrt.AssertEqual(\"returned-error\", r%d_1, r%d_2)\n", e, e)
			okCond = fmt.Sprintf("r%d_1 == nil", e)
		}
		fmt.Fprintf(&sb, "\tif %s {\n", okCond)
		nval := nres
		if hasErr {
			nval--
		}
		for i := 0; i < nval; i++ {
			fmt.Fprintf(&sb, "\t\tvrt.AssertEqual(\"result\", r%d_1, r%d_2)\n", i, i)
			for _, o := range ops {
				fmt.Fprintf(&sb, "\t\tvrt.AssertNoAlias(\"result-shares-no-slice-storage-with-operand\", r%d_1, &%s_1)\n", i, o.name)
			}
		}
		for i, o := range ops {
			if o.ptr {
				fmt.Fprintf(&sb, "\t\tvrt.AssertEqual(\"operand-state-after-call:%s\", &%s_1, &%s_2)\n", o.name, o.name, o.name)
				for _, o2 := range ops[i+1:] {
					if o2.ptr {
						fmt.Fprintf(&sb, "\t\tvrt.AssertNoAlias(\"operands-share-no-slice-storage\", &%s_1, &%s_1)\n", o.name, o2.name)
					}
				}
			} else {
				fmt.Fprintf(&sb, "\t\tvrt.AssertEqual(\"by-value-operand-unmodified:%s\", &%s_1, &%s_3)\n", o.name, o.name, o.name)
			}
		}
		sb.WriteString("\t}\n")
		// operands that the reference leaves untouched must equal the pristine copy
		sb.WriteString("\tvrt.Reach(\"end\")\n}\n\n")
	}
	// hand-written extra harnesses of the case (func G_Extra_*)
	for _, f := range pkgFiles {
		if strings.HasSuffix(f, "_test.go") || strings.HasSuffix(f, "zz_g_harness.go") {
			continue
		}
		if pf, err := parser.ParseFile(fset, f, nil, 0); err == nil {
			for _, d := range pf.Decls {
				if fd, ok := d.(*ast.FuncDecl); ok && fd.Recv == nil && strings.HasPrefix(fd.Name.Name, "G_Extra_") {
					names = append(names, strings.TrimPrefix(fd.Name.Name, "G_"))
				}
			}
		}
	}
	sb.WriteString("// Harnesses lists the mode G harnesses of this package.\nvar Harnesses = map[string]func(){\n")
	for _, n := range names {
		fmt.Fprintf(&sb, "\t\"G_%s\": G_%s,\n", n, n)
	}
	sb.WriteString("}\n")
	if err := os.WriteFile(filepath.Join(dir, "zz_g_harness.go"), []byte(sb.String()), 0644); err != nil {
		return err
	}
	test := fmt.Sprintf(`package %s

import (
	"fmt"
	"os"
	"testing"

	"%s/vrt"
)

func TestVerifReplay(t *testing.T) {
	h, ok := Harnesses[os.Getenv("VERIF_HARNESS")]
	if !ok {
		t.Fatalf("unknown harness %%q", os.Getenv("VERIF_HARNESS"))
	}
	vrt.Reset()
	func() {
		defer func() {
			if p := recover(); p != nil {
				if vrt.IsAssumeFailed(p) {
					fmt.Println("VRT-ASSUME-FAILED")
					return
				}
				fmt.Printf("VRT-PANIC %%v\n", p)
			}
		}()
		h()
	}()
	for _, l := range vrt.Log {
		fmt.Println("VRT-LOG", l)
	}
	for _, l := range vrt.Failed {
		fmt.Printf("VRT-ASSERT-FAILED %%s\n", l)
	}
	fmt.Println("VRT-DONE")
}
`, gen.Name.Name, corpusMod)
	return os.WriteFile(filepath.Join(dir, "zz_replay_test.go"), []byte(test), 0644)
}

// corpusNative runs a corpus harness natively ("pkg.G_M") with a replay table.
func corpusNative(harness, modelPath string) string {
	w := getCorpus()
	parts := strings.SplitN(harness, ".", 2)
	if len(parts) != 2 {
		return "bad corpus harness name " + harness
	}
	w.replayMu.Lock()
	bin, ok := w.bins[parts[0]]
	if !ok {
		bin = filepath.Join(w.dir, parts[0]+".test")
		cmd := exec.Command("go", "test", "-c", "-vet=off", "-o", bin, "./"+parts[0])
		cmd.Dir = w.dir
		cmd.Env = goEnv()
		if out, err := cmd.CombinedOutput(); err != nil {
			w.replayMu.Unlock()
			return "replay build failed: " + string(out)
		}
		w.bins[parts[0]] = bin
	}
	w.replayMu.Unlock()
	cmd := exec.Command(bin, "-test.run", "^TestVerifReplay$", "-test.v")
	cmd.Dir = w.dir
	cmd.Env = append(goEnv(), "VERIF_REPLAY="+modelPath, "VERIF_HARNESS="+parts[1])
	out, _ := cmd.CombinedOutput()
	return string(out)
}
