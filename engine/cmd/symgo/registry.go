package main

import (
	"go/ast"
	"go/parser"
	"go/token"
	"go/types"

	"golang.org/x/tools/go/ast/astutil"
	"os"
	"path/filepath"
	"reflect"
	"strings"

	"verif/engine/sym"
	"verif/engine/vrt"
)

// HarnessSpec registers one harness (a function of /verif/harness/zz_verif) for a property.
type HarnessSpec struct {
	Prop      string
	Name      string
	Tier      string // "" = both tiers, "thorough" = thorough only
	MapOrder  bool
	CrossPath []string
	MustReach []string
	What      string
	Bounds    string
	Assumes   []string
	Replay    string // native | e2e | none
}

var registry []*HarnessSpec

func reg(s *HarnessSpec) { registry = append(registry, s) }

func specsFor(prop, tier string) []*HarnessSpec {
	var out []*HarnessSpec
	for _, s := range registry {
		if s.Prop != prop {
			continue
		}
		if s.Tier == "thorough" && tier != "thorough" {
			continue
		}
		if s.Tier == "quick" && tier != "quick" {
			continue
		}
		out = append(out, s)
	}
	return out
}

func findSpec(name string) *HarnessSpec {
	for _, s := range registry {
		if s.Name == name {
			return s
		}
	}
	return nil
}

func configureEngine(e *sym.Engine) {
	// native judges / oracles of the vrt package
	for name, f := range vrt.NativeFuncs {
		e.Natives[modPath+"/pkg/vrt."+name] = f
	}
	// go/types package-level functions used by convergen
	e.Natives["go/types.AssignableTo"] = types.AssignableTo
	e.Natives["go/types.ConvertibleTo"] = types.ConvertibleTo
	e.Natives["go/types.Identical"] = types.Identical
	e.Natives["go/types.LookupFieldOrMethod"] = types.LookupFieldOrMethod
	e.Natives["go/types.NewMethodSet"] = types.NewMethodSet
	e.Natives["go/types.TypeString"] = types.TypeString
	e.Natives["go/types.Universe"] = reflect.ValueOf(&types.Universe)
	e.Natives["go/types.NewPointer"] = types.NewPointer
	e.Natives["go/types.Unalias"] = types.Unalias
	e.Natives["go/parser.ParseFile"] = parser.ParseFile
	e.Natives["go/token.NewFileSet"] = token.NewFileSet
	e.Natives["go/ast.IsExported"] = ast.IsExported
	e.Natives["go/ast.Inspect"] = ast.Inspect
	e.Natives["golang.org/x/tools/go/ast/astutil.PathEnclosingInterval"] = astutil.PathEnclosingInterval
	e.Whitelist["path.Ext"] = true
	sym.TModeStubs(e.Stubs)
	e.SkeletonRoot = filepath.Join(verifDir, "skeletons")
}

// inPkgOverlay maps in-package harness support files (accessors for unexported kernels) into /repo.
func inPkgOverlay() map[string]string {
	m := map[string]string{}
	root := filepath.Join(verifDir, "harness/inpkg")
	filepath.Walk(root, func(p string, info os.FileInfo, err error) error {
		if err != nil || info.IsDir() || !strings.HasSuffix(p, ".go") {
			return nil
		}
		rel, _ := filepath.Rel(root, p)
		m[filepath.Join(repoDir, "pkg", rel)] = p
		return nil
	})
	return m
}
