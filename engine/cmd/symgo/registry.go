package main

import (
	"go/ast"
	"go/parser"
	"go/token"
	"go/types"

	"golang.org/x/tools/go/ast/astutil"
	"os"
	"path/filepath"
	"reflect"
	"sort"
	"strconv"
	"strings"
	"unicode"

	"verif/engine/sym"
	"verif/engine/vrt"
)

// HarnessSpec registers one harness (a function of /verif/harness/zz_verif) for a property.
type HarnessSpec struct {
	Prop      string
	Name      string
	Pkg       string // package of the harness function when it is not pkg/zz_verif ("" = the module's package main for ".")
	Tier      string // "" = both tiers, "thorough" = thorough only
	MapOrder  bool
	CrossPath []string
	MustReach []string
	What      string
	Bounds    string
	Assumes   []string
	Replay    string // native | e2e | none
}

var registry []*HarnessSpec

func reg(s *HarnessSpec) { registry = append(registry, s) }

func specsFor(prop, tier string) []*HarnessSpec {
	var out []*HarnessSpec
	for _, s := range registry {
		if s.Prop != prop {
			continue
		}
		if s.Tier == "thorough" && tier != "thorough" {
			continue
		}
		if s.Tier == "quick" && tier != "quick" {
			continue
		}
		out = append(out, s)
	}
	return out
}

func findSpec(name string) *HarnessSpec {
	for _, s := range registry {
		if s.Name == name {
			return s
		}
	}
	return nil
}

// findSpecFor prefers the registration of the harness under the given property.
func findSpecFor(prop, name string) *HarnessSpec {
	for _, s := range registry {
		if s.Name == name && s.Prop == prop {
			return s
		}
	}
	return findSpec(name)
}

func configureEngine(e *sym.Engine) {
	// native judges / oracles of the vrt package
	for name, f := range vrt.NativeFuncs {
		e.Natives[modPath+"/pkg/vrt."+name] = f
	}
	// go/types package-level functions used by convergen
	e.Natives["go/types.AssignableTo"] = types.AssignableTo
	e.Natives["golang.org/x/tools/go/ast/astutil.PathEnclosingInterval"] = astutil.PathEnclosingInterval
	e.Natives["go/types.ConvertibleTo"] = types.ConvertibleTo
	e.Natives["go/types.Identical"] = types.Identical
	e.Natives["go/types.LookupFieldOrMethod"] = types.LookupFieldOrMethod
	e.Natives["go/types.NewMethodSet"] = types.NewMethodSet
	e.Natives["go/types.TypeString"] = types.TypeString
	e.Natives["go/types.Universe"] = reflect.ValueOf(&types.Universe)
	e.Natives["go/types.Typ"] = reflect.ValueOf(&types.Typ)
	e.Natives["go/types.NewPointer"] = types.NewPointer
	e.Natives["go/types.Unalias"] = types.Unalias
	e.Natives["go/parser.ParseFile"] = parser.ParseFile
	e.Natives["go/token.NewFileSet"] = token.NewFileSet
	e.Natives["go/ast.IsExported"] = ast.IsExported
	e.Natives["golang.org/x/tools/go/ast/astutil.PathEnclosingInterval"] = astutil.PathEnclosingInterval
	// pure standard-library helpers, called natively on concrete arguments (a symbolic argument is refused)
	for name, f := range map[string]interface{}{
		"path/filepath.Base": filepath.Base, "path/filepath.Dir": filepath.Dir, "path/filepath.Ext": filepath.Ext,
		"path/filepath.Clean": filepath.Clean, "path/filepath.Join": filepath.Join, "path/filepath.IsAbs": filepath.IsAbs,
		"path/filepath.Abs": filepath.Abs, "path/filepath.Rel": filepath.Rel, "path/filepath.Split": filepath.Split,
		"path/filepath.ToSlash": filepath.ToSlash, "path/filepath.FromSlash": filepath.FromSlash,
		"strconv.Atoi": strconv.Atoi, "strconv.Quote": strconv.Quote, "strconv.Unquote": strconv.Unquote,
		"strconv.FormatInt": strconv.FormatInt, "strconv.ParseBool": strconv.ParseBool, "strconv.ParseUint": strconv.ParseUint,
		"unicode.IsUpper": unicode.IsUpper, "unicode.IsLower": unicode.IsLower, "unicode.ToUpper": unicode.ToUpper,
		"unicode.ToLower": unicode.ToLower, "unicode.IsSpace": unicode.IsSpace, "unicode.IsPunct": unicode.IsPunct,
		"sort.Strings": sort.Strings, "sort.Ints": sort.Ints,
		"go/token.IsExported": token.IsExported, "go/token.IsIdentifier": token.IsIdentifier, "go/token.IsKeyword": token.IsKeyword,
		"go/types.ExprString": types.ExprString, "go/types.ObjectString": types.ObjectString, "go/types.Implements": types.Implements,
		"go/types.IdenticalIgnoreTags": types.IdenticalIgnoreTags, "go/types.Default": types.Default, "go/types.IsInterface": types.IsInterface,
		"go/types.NewSlice": types.NewSlice, "go/types.AssertableTo": types.AssertableTo, "go/types.Comparable": types.Comparable,
		"go/ast.NewIdent": ast.NewIdent,
	} {
		e.Natives[name] = f
	}
	e.Whitelist["path.Ext"] = true
	sym.TModeStubs(e.Stubs)
	sym.LayoutStubs(e.Stubs)
	e.Natives["go/types.NewTypeName"] = types.NewTypeName
	e.SkeletonRoot = filepath.Join(verifDir, "skeletons")
}

// inPkgOverlay maps in-package harness support files (accessors for unexported kernels) into /repo.
func inPkgOverlay() map[string]string {
	m := map[string]string{}
	root := filepath.Join(verifDir, "harness/inpkg")
	filepath.Walk(root, func(p string, info os.FileInfo, err error) error {
		if err != nil || info.IsDir() || !strings.HasSuffix(p, ".go") {
			return nil
		}
		rel, _ := filepath.Rel(root, p)
		if strings.HasPrefix(rel, "main"+string(filepath.Separator)) {
			// package main lives in the module root
			m[filepath.Join(repoDir, filepath.Base(p))] = p
			return nil
		}
		m[filepath.Join(repoDir, "pkg", rel)] = p
		return nil
	})
	return m
}
