package main

const (
	aEmit = "names and type expressions in emitter harnesses are fixed placeholder atoms (the emitters only concatenate them and test the receiver for emptiness); the quantifier ranges over all flags, counts and tree shapes within the bound"
	aJudge = "the per-path judge parses the emitted text with go/parser and states the property on the AST (formatting is not observable)"
)

func init() {
	// ---------------------------------------------------------------- C08
	reg(&HarnessSpec{Prop: "C08", Name: "C08Signature",
		What:    "real generator.FuncToString over every combination of receiver/style/src-ptr/dst-ptr/error/0..3 additional arguments (each by pointer or value)/0..2 doc lines; the parsed FuncDecl must equal the documented shape (README :style/:recv + additional arguments after the source, err error last, destination allocated first in pointer-return style, final return)",
		Bounds:  "0..3 additional arguments, 0..2 comment lines; all boolean flags symbolic",
		Assumes: []string{aEmit, aJudge}})
	// ---------------------------------------------------------------- C10
	for _, n := range []string{"C10HookPre", "C10HookPost", "C10NoHook"} {
		reg(&HarnessSpec{Prop: "C10", Name: n,
			What:    "real FuncToString+ManipulatorToString with an arbitrary hook (dst/src by pointer or value, with/without additional arguments, with/without error) in an arbitrary function shape (receiver, style, pointer-ness, error, 0 or 2 additional arguments, 0..2 assignments): exactly one call, after the destination allocation and before the first assignment (pre) / after the last assignment and before the final return (post); operand pointer depth = declared depth in the emitted header + emitted &/* = hook's declared depth; additional arguments forwarded in order; error result checked immediately",
			Bounds:  "one hook; 0 or 2 additional arguments; 0..2 assignments; all flags symbolic; precondition (assumed): an error-returning hook only in a function with error result (enforced by buildManipulator, checked in mode T)",
			Assumes: []string{aEmit, aJudge}})
	}
	reg(&HarnessSpec{Prop: "C10", Name: "C10HookBoth", Tier: "thorough",
		What:   "as C10HookPre/Post with both hooks present (2^8 hook flag combinations x function shapes): pre before post, each exactly once",
		Bounds: "two hooks; 0 or 2 additional arguments; 0..2 assignments", Assumes: []string{aEmit, aJudge}})
	// ---------------------------------------------------------------- C07
	reg(&HarnessSpec{Prop: "C07", Name: "C07ErrFlow",
		What:    "real FuncToString/AssignmentToString/NestStruct rendering over arbitrary assignment lists (leaf kinds: skip, plain, error-returning, slice loop; nested struct with init/nil-check flags and 1..2 contents; optional trailing error-returning item; optional error-returning pre/post hooks) in every style/pointer/error shape: at any nesting depth every statement assigning err is immediately followed by `if err != nil { return ... }` that returns err with the function's arity; err is assigned only in functions declaring it; functions with results end in return",
		Bounds:  "<= 2 top-level items, nesting depth 1 (quick) / 2 (thorough), <= 2 contents per nested struct",
		Assumes: []string{aEmit, aJudge, "precondition (assumed here, decided in mode T): error-returning assignments/hooks are only handed to FuncToString for functions with an error result"}})
	reg(&HarnessSpec{Prop: "C07", Name: "C07ErrFlowDeep", Tier: "thorough",
		What: "C07ErrFlow with nested structs inside nested structs (depth 2)", Bounds: "depth 2", Assumes: []string{aEmit, aJudge}})
}
