package main

const (
	aEmit  = "names and type expressions in emitter harnesses are fixed placeholder atoms (the emitters only concatenate them and test the receiver for emptiness); the quantifier ranges over all flags, counts and tree shapes within the bound"
	aJudge = "the per-path judge parses the emitted text with go/parser and states the property on the AST (formatting is not observable)"
)

func init() {
	// ---------------------------------------------------------------- C08
	reg(&HarnessSpec{Prop: "C08", Name: "C08Signature",
		What:    "real generator.FuncToString over every combination of receiver/style/src-ptr/dst-ptr/error/0..3 additional arguments (each by pointer or value)/0..2 doc lines; the parsed FuncDecl must equal the documented shape (README :style/:recv + additional arguments after the source, err error last, destination allocated first in pointer-return style, final return)",
		Bounds:  "0..3 additional arguments, 0..2 comment lines; all boolean flags symbolic",
		Assumes: []string{aEmit, aJudge}})
	// ---------------------------------------------------------------- C10
	for _, n := range []string{"C10HookPre", "C10HookPost", "C10NoHook"} {
		reg(&HarnessSpec{Prop: "C10", Name: n,
			What:    "real FuncToString+ManipulatorToString with an arbitrary hook (dst/src by pointer or value, with/without additional arguments, with/without error) in an arbitrary function shape (receiver, style, pointer-ness, error, 0 or 2 additional arguments, 0..2 assignments): exactly one call, after the destination allocation and before the first assignment (pre) / after the last assignment and before the final return (post); operand pointer depth = declared depth in the emitted header + emitted &/* = hook's declared depth; additional arguments forwarded in order; error result checked immediately",
			Bounds:  "one hook; 0 or 2 additional arguments; 0..2 assignments; all flags symbolic; precondition (assumed): an error-returning hook only in a function with error result (enforced by buildManipulator, checked in mode T)",
			Assumes: []string{aEmit, aJudge}})
	}
	reg(&HarnessSpec{Prop: "C10", Name: "C10HookBoth", Tier: "thorough",
		What:   "as C10HookPre/Post with both hooks present (2^8 hook flag combinations x function shapes): pre before post, each exactly once",
		Bounds: "two hooks; 0 or 2 additional arguments; 0..2 assignments", Assumes: []string{aEmit, aJudge}})
	// ---------------------------------------------------------------- C07
	reg(&HarnessSpec{Prop: "C07", Name: "C07ErrFlow",
		What:    "real FuncToString/AssignmentToString/NestStruct rendering over arbitrary assignment lists (leaf kinds: skip, plain, error-returning, slice loop; nested struct with init/nil-check flags and 1..2 contents; optional trailing error-returning item; optional error-returning pre/post hooks) in every style/pointer/error shape: at any nesting depth every statement assigning err is immediately followed by `if err != nil { return ... }` that returns err with the function's arity; err is assigned only in functions declaring it; functions with results end in return",
		Bounds:  "<= 2 top-level items, nesting depth 1 (quick) / 2 (thorough), <= 2 contents per nested struct",
		Assumes: []string{aEmit, aJudge, "precondition (assumed here, decided in mode T): error-returning assignments/hooks are only handed to FuncToString for functions with an error result"}})
	reg(&HarnessSpec{Prop: "C07", Name: "C07ErrFlowDeep", Tier: "thorough",
		What: "C07ErrFlow with nested structs inside nested structs (depth 2)", Bounds: "depth 2", Assumes: []string{aEmit, aJudge}})

	// ---------------------------------------------------------------- C18
	aEnv := "flag.*, os.Getenv, os.Exit, os.Stat/OpenFile/WriteFile, fmt.Print*, imports.Process and format.Source are nondeterministic effect-recording stubs (DESIGN.md 3.2)"
	reg(&HarnessSpec{Prop: "C18", Name: "C18ParseArgs",
		What:    "real Config.ParseArgs with -out/-log/-dry/-print, the positional argument and GOFILE symbolic: Input = positional else GOFILE; Output = -out else Input with .gen inserted before the extension (reference: last '.' of the last '/'-element, stated with LastIndex, independent of path.Ext's loop); Log = Output with extension replaced by .log iff -log; flags copied",
		Bounds:  "paths are ASCII byte vectors (bytes 1..127) of length 0..10, every length case-split, every byte symbolic",
		Assumes: []string{aEnv, "real flag parsing (flags after the positional argument are ignored by package flag) is outside the claim"}})
	reg(&HarnessSpec{Prop: "C13", Name: "C18ParseArgs",
		What:    "for C13's 'relative vs absolute input path': the designated output/log paths are the SAME function of the input path for every spelling of it - the input with .gen inserted before the extension of its last element - so a directory part containing dots (./x.go, ../d/x.go, /a.b/x.go) designates the output next to the input exactly as a dot-free spelling does (see C18ParseArgs)",
		Bounds:  "as C18ParseArgs",
		Assumes: []string{aEnv}})
	reg(&HarnessSpec{Prop: "C15", Name: "C18ParseArgs",
		What:    "for C15's 'the log file next to it': the log path handed to runner.Run is the designated OUTPUT path (after -out) with its extension replaced by .log, for every input path, -out value and flag valuation - never a file next to the input or anywhere else (see C18ParseArgs)",
		Bounds:  "as C18ParseArgs",
		Assumes: []string{aEnv}})
	reg(&HarnessSpec{Prop: "C18", Name: "C18NoInput", Replay: "none",
		What: "no positional argument and empty GOFILE: usage and exit status 1", Bounds: "-out symbolic <= 10 bytes", Assumes: []string{aEnv}})
	reg(&HarnessSpec{Prop: "C18", Name: "C18Generate", Replay: "e2e-cli",
		What:   "real Generator.Generate/generateContent with symbolic base code, output path, print and dry flags and nondeterministic formatter/write outcomes: on success with -print stdout got exactly the returned bytes + newline (with and without -dry); the file got the same bytes, mode 0644, at the output path; never written under -dry or after a formatter failure",
		Bounds: "base code <= 30 bytes (SMT string), no function blocks", Assumes: []string{aEnv}})
	reg(&HarnessSpec{Prop: "C18", Name: "C15Run", Replay: "e2e-cli",
		What:   "real runner.Run with all stages summarised (arbitrary result/error): -log opens exactly <conf.Log> first with O_RDWR|O_CREATE|O_TRUNC and changes neither the later effects nor the error result",
		Bounds: "conf strings <= 10 bytes (SMT strings); 0..2 function blocks", Assumes: []string{aEnv, "stage summaries: NewParser, Parse, CreateFunctions, GenerateBaseCode return arbitrary values/errors and have no file-system effect of their own (their real code is covered by the mode-T harnesses and the SSA effect inventory)"}})
	// ---------------------------------------------------------------- C15
	reg(&HarnessSpec{Prop: "C15", Name: "C15Run", Replay: "e2e-cli",
		What:   "real runner.Run + Generate with all stages summarised: the only file-system effects are OpenFile(conf.Log) iff conf.Log != \"\" (first) and at most one WriteFile(conf.Output, formatted, 0644), which happens iff !DryRun and every stage and both formatters succeeded and is the last file-system effect; every failure is reported",
		Bounds: "conf strings <= 10 bytes; 0..2 function blocks; every subset of stage failures", Assumes: []string{aEnv, "stage summaries as in C18/C15Run"}})
	reg(&HarnessSpec{Prop: "C15", Name: "C18Generate", Replay: "e2e-cli",
		What: "Generate's write discipline (see C18Generate)", Bounds: "base code <= 30 bytes", Assumes: []string{aEnv}})

	// ---------------------------------------------------------------- C19
	aSigma := "subject code points are restricted to the finite alphabet Sigma (printable ASCII, newline, tab, every code point on which ToLower and simple case folding induce different equivalences - computed from Go's unicode tables at run time -, a few ordinary non-ASCII letters; closed under ToLower/ToUpper/SimpleFold); case tables are define-fun ite-tables generated from Go's unicode package"
	aRe := "regexp is environment: expressions are compiled natively (regexp/syntax); membership of a symbolic subject is decided by symbolic simulation of the compiled regexp/syntax program (Thompson NFA) over the rune vector - exact for membership incl. anchors, \\b and fold-case flags; the oracle compiles the ORIGINAL expression (prefixed with (?i) when the case rule is off)"
	reg(&HarnessSpec{Prop: "C19", Name: "C19PatternMatcher",
		What:    "real NewPatternMatcher/compileRegexp/PatternMatcher.Match for every catalogue pattern (plain incl. metacharacters and non-ASCII letters; /regexp/ with classes, negated and Perl/Unicode classes, anchors, alternation, repetition, flags, escapes; invalid ones), both case rules at construction and query, after every history of <= 2 earlier queries with arbitrary rules: accepted iff the expression is valid; answer = documented meaning (equality / Unicode simple-fold equality / RE2 search, case-insensitive when the rule is off); no panic",
		Bounds:  "95 catalogue patterns; subject <= 3 code points (quick) / <= 5 (thorough) of Sigma; history <= 2 (quick) / 3 (thorough) one-code-point queries",
		Assumes: []string{aSigma, aRe}, Tier: "quick"})
	reg(&HarnessSpec{Prop: "C19", Name: "C19PatternMatcherDeep", Tier: "thorough",
		What: "as C19PatternMatcher with subjects <= 5 code points and histories <= 3", Bounds: "subject <= 5, history <= 3", Assumes: []string{aSigma, aRe}})
	reg(&HarnessSpec{Prop: "C19", Name: "C19ShouldSkip",
		What:   "real Options.ShouldSkip with two matchers constructed under the opposite case rule: result = disjunction of the documented meanings under the method's rule",
		Bounds: "pattern1 from the catalogue, pattern2 from 3 patterns, subject <= 2 code points", Assumes: []string{aSigma, aRe}})
	reg(&HarnessSpec{Prop: "C19", Name: "C19IdentMatchers",
		What:   "real IdentMatcher/NameMatcher/FieldConverter/LiteralSetter/Options.CompareFieldName with symbolic pattern and identifier: equality resp. Unicode simple-fold equality; :conv always case-sensitive; path splitting at '.' lossless",
		Bounds: "pattern, identifier <= 3 code points, other <= 2, all of Sigma", Assumes: []string{aSigma}})

	// ---------------------------------------------------------------- C11 / C13 / C17 text kernels
	aVec := "text pieces are symbolic ASCII byte vectors (bytes 1..127) of case-split length; markers are two pairs of concrete 21-byte strings over the nanoid alphabet; assumed: the text around the markers contains no 'M'/'N' (i.e. a marker occurs in the printed base code only where it was planted)"
	for _, pr := range []string{"C11", "C13", "C17"} {
		reg(&HarnessSpec{Prop: pr, Name: "C11MarkerSubstitution", Replay: "none",
			What:    "real Generate/generateContent (+FuncToString) on base code pre++marker1++mid[++marker2++post] with 0..2 functions per block and the FunctionBlocks in either order: content = header++pre++block1++mid[++block2++post] (every block at its own marker, exactly its functions in order, nothing else changed, no marker left) and identical for two different marker pairs",
			Bounds:  "pre/mid/post <= 2 bytes each; 1..2 blocks; 0..2 functions per block",
			Assumes: []string{aVec, aEnv}})
	}
	reg(&HarnessSpec{Prop: "C11", Name: "C11ExtractComments", Replay: "none",
		What:    "real util.ExtractMatchComments/MatchComments/ToTextList on comment groups of 0..5 comments with symbolic texts and an arbitrary (uninterpreted) match outcome per text: removed = the matching comments in order, group keeps the others in order (same objects), nil/empty groups untouched",
		Bounds:  "0..5 comments; texts <= 8 bytes (SMT strings); match outcome = uninterpreted predicate of the text",
		Assumes: []string{"which texts match is decided separately (regular expressions of C11 are environment, their membership is uninterpreted here)"}})
	reg(&HarnessSpec{Prop: "C13", Name: "C13ImportTable", MapOrder: true,
		CrossPath: []string{"LookupName", "LookupName.ok", "LookupPath", "LookupPath.ok", "LookupPath.q", "LookupPath.q.ok"},
		What:      "real util.NewImportNames/LookupName/LookupPath on 2 import specs with arbitrary paths (3 directory shapes x arbitrary one-letter last element) and name forms (none, _, ., arbitrary letter), every map iteration order at every single range site: assertions (name of path, path of name) on each path and cross-path equality of all lookup results for jointly satisfiable inputs",
		Bounds:    "2 imports (quick) / 3 (thorough); one permuted range site per path (all permutations at that site)",
		Assumes:   []string{"import tables of valid Go files: paths pairwise distinct; bound names pairwise distinct except _ and ."}})
	reg(&HarnessSpec{Prop: "C13", Name: "C13ImportTable3", Tier: "thorough", MapOrder: true,
		CrossPath: []string{"LookupName", "LookupPath", "LookupPath.q"},
		What:      "C13ImportTable with 3 imports", Bounds: "3 imports; 2 directory shapes for the first two paths, 1 for the third", Assumes: []string{"as C13ImportTable"}})

	// ---------------------------------------------------------------- mode T smoke
	reg(&HarnessSpec{Prop: "T0", Name: "T0Pipeline", What: "validation of the native bridge: full front half on the basic skeleton for every slot choice", Bounds: "skeleton basic"})

	// ---------------------------------------------------------------- C17 / C09 (mode T)
	aT := "Go types are concrete: the skeleton package (/verif/skeletons) is type-checked natively by go/types on every path; go/types, go/ast, go/token objects are native values called through a reflection bridge; packages.Load is a stub that runs convergen's real ParseFile hook (interpreted) on every file of the skeleton and type-checks the result natively (go list/go/packages loading is environment)"
	aSlots := "notation slots: each slot line of the skeleton setup file is instantiated from its menu (slots.json), every combination explored; the notation texts themselves are concrete"
	reg(&HarnessSpec{Prop: "C17", Name: "C17Selection",
		What:   "real NewParser+Parse (findConvergenEntries, parseMethods) + CreateFunctions on a file with four interfaces (one named Convergen, two sharing a method name), a marked struct and a marked interface in a sibling file, the doc comment of each interface arbitrary from its menu (no comment, :convergen, :convergen + other notation, ordinary text, :convergenX, text mentioning :convergen): selected = declared in the input file and (named Convergen or marked), in name order, each with its full method set; one function per method in order",
		Bounds: "skeleton sel; 5x3x3x3 doc-comment combinations", Assumes: []string{aT, aSlots}})
	reg(&HarnessSpec{Prop: "C17", Name: "C17NoInterface",
		What: "a file without converter interface is rejected although a sibling file declares a marked interface", Bounds: "skeleton nointf", Assumes: []string{aT, aSlots}})
	reg(&HarnessSpec{Prop: "C09", Name: "C09Scoping",
		What:   "real Parse on 2 interfaces x 2 methods with notation slots at both interfaces and at three methods, instantiated with ON/OFF spellings of each of the six toggle families and with :skip/:map/:conv/:literal lists on several methods: effective toggle of every method = interface default overridden by the method's own notations (reference fold written from the README); all other toggles at their defaults; per-method lists contain exactly the method's own notations (append-aliasing across by-value Options copies included); :skip observed through ShouldSkip under the method's effective case rule (a later :case overrides the rule a pattern was compiled under)",
		Bounds: "skeleton scope; 7 slots with 2..6 menu entries each x 6 toggle families (28800 combinations)", Assumes: []string{aT, aSlots}})

	reg(&HarnessSpec{Prop: "C16", Name: "C09Scoping",
		What:   "for C16's 'element conversions are applied only under :typecast': the effective :typecast of every method is exactly its own interface's default overridden by its own notation - a :typecast written on another method or another converter interface never switches it on (see C09Scoping; family typecast)",
		Bounds: "as C09Scoping", Assumes: []string{aT, aSlots}})
	reg(&HarnessSpec{Prop: "C09", Name: "C11WholeFile", Replay: "native",
		What:   "whole generated text on skeleton whole: an interface-level ':style arg' shapes every function of ITS interface and no function of another converter interface; a method-level :skip reaches its own function only (see C11WholeFile)",
		Bounds: "skeleton whole", Assumes: []string{aT, aSlots}})

	reg(&HarnessSpec{Prop: "C13", Name: "C13BlankImport", MapOrder: true,
		What:   "real front half on skeleton blank (a blank import of a package that bears the NAME of a regularly imported one whose directory is called differently: _ \"verifsk/side/lib\" next to \"verifsk/lib/v2\", package lib) with every iteration order of the import table explored at each range site: the qualifier lib resolves to the named import, ':conv lib.Norm Name' is accepted and used under every order",
		Bounds: "skeleton blank, 2 slot choices, map orders of one range site per path", Assumes: []string{aT, aSlots}})
	for _, pr := range []string{"C03", "C01", "C10", "C06"} {
		reg(&HarnessSpec{Prop: pr, Name: "C03DotImport", Replay: "native",
			What:   "real front half on skeleton dot (the setup file dot-imports verifsk/lib/v2 and names its function bare in ':conv Norm Name'; it imports verifsk/ext under the name pets and names a converter and a post hook of it as pets.Norm / pets.PostPet): the file is accepted with one function per method, converter and hook calls are spelled with the names the setup file's scope gives them, and the emitted functions type-check in the package",
			Bounds: "skeleton dot, 2 slot choices", Assumes: []string{aT, aSlots}})
	}
	for _, pr := range []string{"C05", "C14"} {
		reg(&HarnessSpec{Prop: pr, Name: "C05Logger", Replay: "native",
			What:   "the REAL logger package (SetupLogger, Warnf, Errorf, Printf; summarised in every other harness) on a model of log.Logger (writer + flags, one line per call): without -log, with -log (Enable + Output, as runner.Run sets it up) and after a second set-up, a warning and an error reach standard error exactly once and exactly as formatted - also when the position text holds %, : or blanks (directory names) -, the error value carries the message, the trace never reaches standard error, and the log file holds all three",
			Bounds: "3 set-ups x 5 position texts x 3 field names", Assumes: []string{"package log: a Logger writes each message in one piece to its writer, with a time stamp in front when its flags are non-zero"}})
	}
	reg(&HarnessSpec{Prop: "C14", Name: "C14OddPath", Replay: "native",
		What:   "real front half on a copy of skeleton dup that lives in a module whose directory is called 'w:1 %d' (colon, blank, percent sign: the position text file:line:column then holds colons of its own): the type error inside the converter interface is attributed to it and the run is rejected with a positioned diagnostic",
		Bounds: "skeleton odd/w:1 %d/dup, 2 slot choices", Assumes: []string{aT, aSlots}})
	reg(&HarnessSpec{Prop: "C01", Name: "C13BlankImport", MapOrder: true,
		What:   "for C01's package layouts (blank imports): under every iteration order of the import table the functions emitted for skeleton blank name the regular import by its package name and never by the blank identifier (see C13BlankImport)",
		Bounds: "as C13BlankImport", Assumes: []string{aT, aSlots}})
	reg(&HarnessSpec{Prop: "C14", Name: "C14MainReports", Pkg: ".", Replay: "e2e-cli",
		What:    "the REAL main() (harness injected into package main by overlay) with flags, positional argument and GOFILE symbolic and every pipeline stage summarised by an arbitrary result/error: whenever the process ends with os.Exit, the status is 1 and a message was written to standard error before - also for failures that never pass through the logger (os.Stat of the input, the import optimiser, the formatter, the write); a run without failure returns normally",
		Bounds:  "paths <= 3 bytes (SMT strings); all flag valuations; every stage outcome",
		Assumes: []string{aEnv, "stage summaries as in C15Run"}})
	reg(&HarnessSpec{Prop: "C14", Name: "C17Selection",
		What:   "for C14's 'never reports success while dropping a converter-interface method': on skeleton sel every method of every selected converter interface - incl. the methods an interface has by EMBEDDING an interface declared in a sibling file - yields a function (see C17Selection)",
		Bounds: "skeleton sel", Assumes: []string{aT, aSlots}})
	reg(&HarnessSpec{Prop: "C04", Name: "C19IdentMatchers",
		What:   "for C04's name match: Options.CompareFieldName - the comparison every destination/source field pair goes through - is equality under the exact rule and Unicode simple case folding under :case:off, for all names over the alphabet (incl. fold partners of different UTF-8 length and letters whose lower-case forms differ although they fold together) (see C19IdentMatchers)",
		Bounds: "as C19IdentMatchers", Assumes: []string{"as C19IdentMatchers"}})
	for _, pr := range []string{"C09", "C06", "C05"} {
		reg(&HarnessSpec{Prop: pr, Name: "C09CrossMethod", Replay: "native",
			What:   "real front half on skeleton cross (three methods in two converter interfaces copying between the same types, each with a notation from its own menu - none, :skip, :literal or :map on a member of the nested struct): every function treats the nested struct according to ITS method's notation alone - copied whole without one, member by member with the notation applied otherwise - whatever the methods built before it in the same run were told (no state of one method's build reaches another's)",
			Bounds: "skeleton cross, 4x3x2 slot choices", Assumes: []string{aT, aSlots}})
	}
	reg(&HarnessSpec{Prop: "C06", Name: "C09Scoping",
		What:   "for C06's ':skip never assigned / the first explicit notation supplies the source': the :skip, :map, :conv and :literal lists of every method hold exactly what its own doc comment wrote, in order - never another method's entries, never an entry lost to another method's (shared backing arrays), whatever the interface's doc comment holds, incl. :skip lines there (which the README does not give a meaning at interface level) (see C09Scoping)",
		Bounds: "as C09Scoping", Assumes: []string{aT, aSlots}})
	reg(&HarnessSpec{Prop: "C09", Name: "C17Selection",
		What:   "for C09's scoping: a method the converter interface has by embedding an unmarked interface of the same file carries exactly the notations of its own doc comment on top of the CONVERTER interface's defaults; the notations on the embedded interface's doc comment (and the package comment's) are nobody's defaults (see C17Selection)",
		Bounds: "skeleton sel", Assumes: []string{aT, aSlots}})
	reg(&HarnessSpec{Prop: "C11", Name: "C17Selection",
		What:   "for C11's doc forwarding: a method inherited from an unmarked interface of the same file keeps the doc comment it is declared with (its notation lines applied, not forwarded); one declared without doc comment has none (see C17Selection)",
		Bounds: "skeleton sel", Assumes: []string{aT, aSlots}})
	reg(&HarnessSpec{Prop: "C08", Name: "C17Selection",
		What:   "for C08's 'each method of a converter interface yields exactly one function of the same name': incl. the methods an interface has by embedding an interface of the same or of a sibling file, in method-set order (see C17Selection)",
		Bounds: "skeleton sel", Assumes: []string{aT, aSlots}})
	reg(&HarnessSpec{Prop: "C14", Name: "C14TypeErrors", Replay: "native",
		What:   "real front half on skeleton dup, whose converter interface declares a method twice (go/types reports the error and leaves the duplicate out; another, unrelated type error stands elsewhere in the file): the run is rejected with a positioned diagnostic instead of succeeding with a method missing",
		Bounds: "skeleton dup, 2 slot choices", Assumes: []string{aT, aSlots}})
	for _, pr := range []string{"C14", "C06"} {
		reg(&HarnessSpec{Prop: pr, Name: "C14NotationBytes", Replay: "native",
			What:    "real parseNotationInComments (reNotation/reLiteral run by a leftmost-first backtracking matcher over the byte vector, strings.Fields, NewIdentMatcher, NewNameMatcher, NewFieldConverter, NewLiteralSetter, isValidIdentifier) on ONE method-level notation line ':<notation><sep><args>' for the type-free notations literal/map/conv/style/match/recv/reverse/case:off and an unknown one, with the ARGUMENT TEXT an arbitrary byte string: no Go run-time panic; too few arguments are rejected with a diagnostic; otherwise exactly the white-space separated arguments are recorded (destination / source / function / literal text = rest of the line); :style/:match accept exactly the documented values; :recv accepts identifiers only; unknown notations are ignored",
			Bounds:  "argument text: ASCII bytes 1..127 without CR/LF, length 0..4 (5 thorough), every length case-split, every byte symbolic; separators ' ' and TAB",
			Assumes: []string{"non-ASCII argument bytes are outside the bound (the regexp matcher and unicode.* stubs decide ASCII code points only)", "notations that need type information (:preprocess/:postprocess, :conv resolution) and :skip (matcher compilation: C19) are not exercised here"}})
	}

	// ---------------------------------------------------------------- C14 / C08 / C10 / C07 / C01 (mode T)
	whatBad := "real front half (NewParser, Parse, parseNotationInComments, lookupConverterFunc, lookupManipulatorFunc, resolveConverters, CreateFunctions with the whole assignment builder, FuncToString) on skeleton bad for every (mal)formed notation of a 96-entry menu on a method (missing/invalid arguments, unknown names, wrongly shaped converters and hooks: 0/1 parameters, wrong result shapes, wrong operand types, unexported or unknown imported functions, $n out of range, bad paths, bad regexps, :reverse without :style arg, unknown notations) and misplaced notations on the interface, combined with toggles on both methods: no Go run-time panic on any path; either success with exactly one function per method whose text parses and TYPE-CHECKS inside the skeleton package (native go/types judge), or failure with a message on stderr starting with file:line:column"
	for _, pr := range []string{"C14", "C10", "C07", "C01"} {
		reg(&HarnessSpec{Prop: pr, Name: "C14BadNotation", What: whatBad,
			Bounds:  "skeleton bad: 96 method-level x 4 x 7 combinations + 11 interface-level x 4 x 7",
			Assumes: []string{aT, aSlots, "the Go type checker (go/types) on the spliced package is the per-path judge of 'compiles'; unused imports are ignored (pruned by goimports)"}})
	}
	reg(&HarnessSpec{Prop: "C14", Name: "C14OutIsInput", What: "-out naming the input file: rejected with a diagnostic naming the file, no nil dereference", Bounds: "skeleton basic", Assumes: []string{aT}})
	for _, pr := range []string{"C08", "C01"} {
		reg(&HarnessSpec{Prop: pr, Name: "C08CreateFunction",
			What:    "real CreateFunction/createVar/MethodEntry accessors on 120 method signatures (source/destination pointer or value x error x 0..3 extra arguments x named/unnamed x local/imported) with :style/:reverse/:recv symbolic: rejected exactly for reverse + extra arguments and for a receiver of an imported type; otherwise Src/Dst/extra-argument names (declared, or src/dst/argN, swapped under reverse, receiver override), pointer-ness and package-qualified type expressions, RetError and style are the documented ones (expectations computed from go/types facts), and the emitted function type-checks in the package",
			Bounds:  "skeleton sig (120 methods) x 2^3 option valuations (reverse only with :style arg, as enforced at notation parsing)",
			Assumes: []string{aT}})
	}

	// ---------------------------------------------------------------- C04 / C16 / C01 / C05 type matrix (mode T)
	whatMatrix := "real CreateFunction (structToStruct, matchStructFieldAndStruct, structFieldAndStructGettersAndFields, sliceToSlice, castNode, NewTypecast, TypeName) + FuncToString on the 35x35 type-pair matrix of skeleton types (basic, named basic local/imported with and without String(), structs local same/different shape, empty, imported with unexported members, anonymous, pointers, pointer-to-pointer, slices of basic/named/struct/pointer/slice/string/interface/imported struct, map, interface, error, func, chan, array) with :stringer/:typecast/:getter/:case and the match rule symbolic: for every same-named field pair the decision (plain / String() / conversion / fresh slice copy / converting slice copy / member-wise / no match + warning) equals the reference matcher written from the statement of C04 on go/types facts; every destination field is accounted for at most once; every no-match is warned on stderr; the emitted function TYPE-CHECKS in the package"
	for _, pr := range []string{"C04", "C16", "C01", "C05"} {
		reg(&HarnessSpec{Prop: pr, Name: "C04Matrix", What: whatMatrix,
			Bounds:  "skeleton types: 35 destination structs x 35 source field types x all toggle valuations",
			Assumes: []string{aT, "reference matcher: a convertible pair whose target type convergen cannot spell (unnamed composite) may be reported as no match", "the Go type checker is the judge of 'compiles'"}})
	}

	// ---------------------------------------------------------------- C05 / C06 shapes, C04 names (mode T)
	whatShapes := "real Parse + CreateFunction on skeleton shapes (nested 2 deep, embedded, identical and differing anonymous structs, imported struct with unexported members, pointer/slice of differing structs, empty struct, getters, 2 additional arguments) with two notation slots (77 x 13 menu entries: :skip exact/nested/prefix/case/regexp, :literal, :map incl. getter chains, embedded members, $n, unresolvable and invisible sources, :conv incl. error-returning, imported and to-be-generated converters, conflicting pairs, :case:off/:getter/:typecast): every reachable destination leaf (recomputed from go/types, stopping at members the package cannot see) is covered by exactly one line on itself or an enclosing path; invisible members are never mentioned; every no-match is warned with a position; a path (or ancestor) matching a :skip pattern under the method's case rule is never assigned; the first :conv / :map / $n-map / :literal naming a path (case-sensitively) supplies its value from exactly that converter / source expression / literal text or the path is reported no match; the emitted function type-checks"
	for _, pr := range []string{"C05", "C06", "C01"} {
		reg(&HarnessSpec{Prop: pr, Name: "C06Shapes", What: whatShapes, Bounds: "skeleton shapes; 86 x 13 notation pairs", Assumes: []string{aT, aSlots, "$n denotes the n-th method argument ($1 the source, $2 the first additional argument), as in the README example and the pinned fixture usecase/maps"}})
	}
	reg(&HarnessSpec{Prop: "C19", Name: "C06Shapes",
		What:   "for C19's ':map/:conv paths always compare case-sensitively': at the place where the builder USES the matchers (matchStructFieldAndStruct, notationTargetsMemberOf) a :literal / :conv / :map whose destination differs from a field's path only in letter case addresses nothing, also under :case:off - a value only the notation can supply appears on exactly the path the notation names (see C06Shapes; menu entries ':literal name', ':conv Up Extra name', ':literal in.b', ':map Extra name' x ':case:off')",
		Bounds: "skeleton shapes; 86 x 13 notation pairs", Assumes: []string{aT, aSlots}})
	for _, pr := range []string{"C05", "C01"} {
		reg(&HarnessSpec{Prop: pr, Name: "C05SameName", What: "the same coverage/visibility/type-check obligations where the setup package and the imported package share their package NAME (visibility must be decided by import path)", Bounds: "skeleton samename, 2 methods", Assumes: []string{aT}})
	}
	for _, pr := range []string{"C04", "C01"} {
		reg(&HarnessSpec{Prop: pr, Name: "C04Names",
			What:   "real CreateFunction on skeleton names (identical / unexported / case-differing names, getter only, getter and field, getter with error result, method with parameter, value and pointer receivers, String() on value vs pointer receiver, imported source with unexported members and getters) with all five toggles symbolic: candidate selection (getters first when on, fields only under :match name, accessibility across packages, getter eligibility) and conversion ladder equal the reference; emitted functions type-check",
			Bounds: "skeleton names: 3 methods x toggle valuations", Assumes: []string{aT, "a String() reachable only through the pointer receiver may or may not be used (not pinned by the property)"}})
	}

	// ---------------------------------------------------------------- mode G (generated code)
	aG := "programs are the hand-written corpus (/verif/corpus); the tool built from /repo's current tree is RUN on each case at check time and the emitted functions are loaded into SSA next to hand-written reference functions (ref_M, written from the README, independent of the tool's output); operands: every scalar leaf a fresh symbolic value (ints as mathematical integers without wrap-around, floats opaque, strings unbounded SMT strings), every pointer below the non-nil top-level operands nil or allocated (depth <= 3), every slice nil / len 0 / 1 / 2; user functions of the corpus (converters, getters, String methods, hooks) are interpreted and record a call trace; numeric conversions are uninterpreted functions on both sides"
	whatG := "the generated function M and the reference ref_M run on physically separate copies of the same arbitrary operands: no Go run-time panic in M; equal results (on success), equal final state of every by-pointer operand (destination as the reference leaves it, source unmodified), by-value operands equal to a pristine copy, equal returned error (the very error object), equal user-function call trace (so no later converter/getter/hook runs after a failure and hooks run once, in place, on the real operands), and no slice reachable from the result or destination shares backing storage with a source operand"
	for _, pr := range []string{"C02", "C06", "C10"} {
		reg(&HarnessSpec{Prop: pr, Name: "G:basic", What: whatG + " - corpus case basic (all four pointer/value operand combinations x both styles, :typecast/:stringer on and off, nested struct member-wise, explicit :skip exact+regexp/:map/:literal/:conv/:getter, $n additional arguments with & adaptation, :recv, :reverse, nested source paths and getters)", Bounds: "10 generated functions; pointer depth 3", Assumes: []string{aG}})
	}
	for _, pr := range []string{"C02", "C16"} {
		reg(&HarnessSpec{Prop: pr, Name: "G:slices", What: whatG + " - corpus case slices (identical basic, int->named under :typecast, named->int, struct, pointer, string->interface{} elements; with and without :typecast; return and arg style): nil stays nil/unchanged, fresh storage, equal (converted) elements", Bounds: "3 generated functions; slice length <= 2", Assumes: []string{aG}})
	}
	for _, pr := range []string{"C02", "C07", "C10"} {
		reg(&HarnessSpec{Prop: pr, Name: "G:errs", What: whatG + " - corpus case errs (three error-capable sites incl. a converter on a nested path and an error-returning getter; error-returning pre/post hooks in return and arg style with by-value destination; by-value hook; hook with additional argument): every failure subset is explored through the symbolic inputs that make each user function fail", Bounds: "4 generated functions; k <= 3 error-capable sites", Assumes: []string{aG}})
	}

	// ---------------------------------------------------------------- C12
	reg(&HarnessSpec{Prop: "C12", Name: "C12LoaderHook", Replay: "e2e-regen",
		What:    "real parser.NewParser incl. its ParseFile hook with the loader, file system and go/parser symbolic: the loader delivers the input file, another file and (when it exists) the output file in arbitrary order with arbitrary contents; whenever a delivered file is the output path the hook withholds it silently and its bytes are never handed to the Go parser; every other file is parsed exactly once, unchanged, the input file with comments; the result of NewParser is decided by the loader's own result and the input file only - independent of whether the output path exists, of its bytes and of the Errors/TypeErrors/IllTyped fields of the loaded package (arbitrary, incl. every ErrorKind); an output path naming the input file is rejected and the input never parsed",
		Bounds:  "3 files, contents <= 20 bytes (SMT strings), delivery order arbitrary rotation, 0..1 packages",
		Assumes: []string{aEnv, "assumed, not decided (environment): go list / packages.Load deliver the same package, minus the withheld file, whatever same-package bytes the output path holds"}})
	reg(&HarnessSpec{Prop: "C13", Name: "C12LoaderHook", Replay: "e2e-regen",
		What:    "for C13's 'regardless of ... working directory': the package loader is asked for the input file by its ABSOLUTE name and runs the go command in the directory of the input file (packages.Config.Dir), so the listed package - sibling files, in-module imports - does not depend on where the tool was started (see C12LoaderHook)",
		Bounds:  "as C12LoaderHook",
		Assumes: []string{aEnv, "the import optimiser's own use of the working directory (x/tools/imports) is environment"}})
	reg(&HarnessSpec{Prop: "C15", Name: "C12LoaderHook", Replay: "e2e-regen",
		What:    "for C15's 'the setup file is never modified': an output path that names the input file itself (same file under any spelling: decided by os.SameFile, symbolic here) makes NewParser fail, so the run ends before any write (see C12LoaderHook for the rest of the contract)",
		Bounds:  "as C12LoaderHook",
		Assumes: []string{aEnv}})
	reg(&HarnessSpec{Prop: "C12", Name: "C15Run", Replay: "e2e-regen", What: "the only write is one whole-file os.WriteFile of the formatted bytes after every stage succeeded (see C15Run)", Bounds: "as C15Run", Assumes: []string{aEnv}})
	reg(&HarnessSpec{Prop: "C12", Name: "C18Generate", Replay: "e2e-regen", What: "Generate's write discipline (see C18Generate)", Bounds: "as C18Generate", Assumes: []string{aEnv}})

	// ---------------------------------------------------------------- C03 / C11 layout kernel
	for _, pr := range []string{"C03", "C11"} {
		reg(&HarnessSpec{Prop: pr, Name: "C03MarkerLayout", Replay: "e2e-layout",
			What:    "real Parser.GenerateBaseCode up to its call of printer.Fprint (RemoveMatchComments, the ast.Inspect search for the interface braces - go/ast's Inspect/Walk interpreted from their own SSA -, util.InsertComment in the order the real code calls it) on a syntax tree built by the harness whose brace and comment POSITIONS are symbolic integers: one or two converter interfaces, bodies of any length >= 1 (with or without a method), any realisable gap between them, optional comment groups (1-2 lines) before, inside, between and after, either processing order of the entries. Post-condition (what go/printer's sequential comment cursor needs): every planted marker is a comment group of its own, exactly at its interface's opening and closing brace; group positions strictly increase; no existing comment lost, duplicated or reordered. Counterexamples are rendered byte-exactly as a setup file and run through the built binary; on the unchanged tree solver-chosen layouts of assertion-clean paths are run through the binary as validation of the assumption 'invariant => the printer and the regexp cut work'",
			Bounds:  "positions in [1,400]; <= 2 interfaces; <= 4 comment groups; the family is restricted to realisable files (room for the header and the 'type X interface' text)",
			Assumes: []string{"go/printer and the marker-to-marker regexp cut are NOT encoded: acceptance is established up to the stated layout invariant (validated end to end on solver-chosen layouts, which is validation of an assumption, not a verdict)", "util.ToAstNode is stubbed to return the harness-built declaration; printer.Fprint is a stub that stops the run"}})
	}
	reg(&HarnessSpec{Prop: "C03", Name: "C14BadNotation", What: whatBad + " - for C03: every WELL-FORMED entry of the menu is accepted with one function per method", Bounds: "skeleton bad", Assumes: []string{aT, aSlots}})
	reg(&HarnessSpec{Prop: "C03", Name: "C08CreateFunction", What: "every documented-legal operand shape of the 120-signature catalogue is accepted (rejected-iff-documented-illegal)", Bounds: "skeleton sig", Assumes: []string{aT}})
	reg(&HarnessSpec{Prop: "C03", Name: "G:basic", What: "the tool accepts every corpus case (a rejected or non-compiling corpus case is a violation by itself)", Bounds: "corpus", Assumes: []string{aG}})

	// ---------------------------------------------------------------- C11 remaining clauses
	reg(&HarnessSpec{Prop: "C11", Name: "C11Directives", Replay: "none",
		What:   "the real compiled expressions reGoBuildGen / reNotation / reConvergen (symbolic simulation of their regexp/syntax programs) against the documented spellings with symbolic tails: //go:build convergen, // +build convergen, //go:generate ..., // :name args, // :convergen are recognised (hence removed); an ordinary line or block comment whose text starts with a letter (and not with 'go:') is never recognised, whatever it mentions further on (up to 22 bytes); ':convergenX' is no marker",
		Bounds: "symbolic ASCII tails of 4..22 bytes, every length case-split", Assumes: []string{aRe}})
	reg(&HarnessSpec{Prop: "C11", Name: "C11DocForwarding",
		What:   "real Parse + CreateFunctions on skeleton docs (package comment containing a ':skip' line, commented declarations around the interface, interface/method doc comments from menus mixing text, blank and notation lines, methods without doc comment): every function's doc = the non-notation lines of ITS method's own doc comment in order; notations apply where they stand only; the package comment and the comments of other declarations stay in the syntax tree, the package doc stays attached",
		Bounds: "skeleton docs; 4x5x3 doc-comment menus", Assumes: []string{aT, aSlots}})
	for _, pr := range []string{"C11", "C03", "C13"} {
		reg(&HarnessSpec{Prop: pr, Name: "C11WholeFile", Replay: "native",
			What:    "the REAL runner.Run (dry run: NewParser, Parse, CreateFunctions, GenerateBaseCode incl. marker planting, go/printer run natively on the concrete tree, the marker-to-marker cut, generateContent) on skeleton whole: imports, a go:generate line, declarations with doc / trailing / block / body comments, an ORDINARY interface whose doc and method comments look like notations, and up to three converter interfaces, one of them possibly WITHOUT methods, doc comments from menus (incl. '%' verbs). The text handed to the import optimiser is a Go file; every declaration and comment outside the converter interfaces is present exactly once and byte-identical; directives, build constraint, converter interfaces, their docs and notation lines are absent; every method's function stands where its interface stood, directly under the non-notation lines of its own doc comment, in source order (C03: accepted whatever the mix; C13: no random marker survives)",
			Bounds:  "skeleton whole; 3x4x3x3x3 menus",
			Assumes: []string{aT, aSlots, "imports.Process and format.Source are environment (the text handed to imports.Process is the observation)"}})
	}
	reg(&HarnessSpec{Prop: "C09", Name: "C11DocForwarding", What: "notations of the package comment or of an enclosing declaration never reach a method without doc comment (see C11DocForwarding)", Bounds: "skeleton docs", Assumes: []string{aT, aSlots}})

	for _, pr := range []string{"C06", "C03", "C01"} {
		reg(&HarnessSpec{Prop: pr, Name: "C06CrossConv",
			What:   "real front half on skeleton xconv: a :conv naming a function generated from ANOTHER converter interface of the file (whose name sorts after the referring one) and one generated from the same interface are resolved, used and type-check; the file is accepted with one function per method",
			Bounds: "skeleton xconv, 2 slot choices", Assumes: []string{aT, aSlots}})
	}

	for _, pr := range []string{"C02", "C10", "C04"} {
		reg(&HarnessSpec{Prop: pr, Name: "G:more", What: whatG + " - corpus case more (embedded struct, identical anonymous struct, imported types through an import alias, unexported field with pointer- and value-receiver getters (getters win), :typecast to an imported named type, :stringer on and off, :case:off, :match none with explicit :map/:literal only, two converter interfaces, hooks of all four pointer/value operand shapes in return and arg style with pointer and value destinations)", Bounds: "8 generated functions", Assumes: []string{aG}})
	}
	for _, pr := range []string{"C02", "C06", "C05"} {
		reg(&HarnessSpec{Prop: pr, Name: "G:nested", What: whatG + " - corpus case nested (a nested struct of the SAME type on both sides, which is copied whole unless a notation addresses one of its members: :skip / :literal / :map on a member that is itself a struct, on a struct two levels down, on a deep leaf, by regexp, in return and arg style, by-value operands): the addressed member gets exactly its notation, every other member is copied, nothing else is touched", Bounds: "8 generated functions; pointer depth 3", Assumes: []string{aG}})
	}
	for _, pr := range []string{"C02", "C16", "C06"} {
		reg(&HarnessSpec{Prop: pr, Name: "G:edge", What: whatG + " - corpus case edge (a receiver / named result called e or i, i.e. like the copy loops' variables; :stringer on a pointer field that may be nil; a function generated in the same run used as converter on a nested pointer that may be nil; additional arguments and $1 mapped into members of a nested struct; :typecast converting whole convertible structs and pointers)", Bounds: "6 generated functions; pointer depth 3; slice length <= 2", Assumes: []string{aG}})
	}
	for _, pr := range []string{"C02", "C06", "C07", "C10", "C16"} {
		reg(&HarnessSpec{Prop: pr, Name: "G:mix", What: whatG + " - corpus case mix (arrays, maps that are nil or not, pointers to pointers, slices of named types converted element-wise into fresh storage, nested structs of different types two levels deep copied member by member, a converter on a whole struct, an error-returning converter on a pointer whose failure ends the function before any later assignment or hook, an error-returning post hook with receiver + arg style, getter chains and nil-guarded pointer paths in :map/:conv, :skip and :literal on members of a nested struct, templated paths into an additional pointer argument, a post hook taking the additional arguments, a case-insensitive :skip regexp, a :literal holding white space, skipped members keeping the caller's value in arg style)", Bounds: "7 generated functions; pointer depth 3; slice length <= 2", Assumes: []string{aG}})
	}
	reg(&HarnessSpec{Prop: "C13", Name: "G:more", What: "every corpus case is generated twice in fresh processes: exit status, diagnostics and output bytes must be identical (end-to-end validation of determinism on the corpus)", Bounds: "corpus, 2 runs per case", Assumes: []string{aG}})
}
