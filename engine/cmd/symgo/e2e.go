package main

// End-to-end replays through the binary built from /repo's current tree.

import (
	"crypto/sha1"
	"fmt"
	"os"
	"os/exec"
	"path/filepath"
	"sort"
	"strings"
)

func goEnv() []string {
	return append(os.Environ(), "GOFLAGS=-mod=mod", "GOPROXY=off", "GOSUMDB=off", "GOTOOLCHAIN=local")
}

// buildTool builds convergen from /repo into dir and returns the binary path.
func buildTool(dir string) (string, error) {
	bin := filepath.Join(dir, "convergen")
	cmd := exec.Command("go", "build", "-o", bin, ".")
	cmd.Dir = repoDir
	cmd.Env = goEnv()
	if out, err := cmd.CombinedOutput(); err != nil {
		return "", fmt.Errorf("build failed: %v\n%s", err, out)
	}
	return bin, nil
}

const e2eTypes = `package e2e

type Src struct {
	ID   int
	Name string
}

type Dst struct {
	ID   int
	Name string
}
`

const e2eSetup = `//go:build convergen

package e2e

// Convergen is the converter interface of the replay module.
type Convergen interface {
	// SrcToDst copies a Src into a Dst.
	SrcToDst(*Src) *Dst
	// DstToSrc copies a Dst into a Src.
	DstToSrc(*Dst) (*Src, error)
}
`

const e2eNoIntf = `//go:build convergen

package e2e

type NotAConverter struct{ X int }
`

func writeModule(dir, setup string) error {
	if err := os.MkdirAll(dir, 0755); err != nil {
		return err
	}
	files := map[string]string{"go.mod": "module e2e\n\ngo 1.19\n", "types.go": e2eTypes}
	if setup != "" {
		files["setup.go"] = setup
	}
	for n, c := range files {
		if err := os.WriteFile(filepath.Join(dir, n), []byte(c), 0644); err != nil {
			return err
		}
	}
	return nil
}

func snapshot(dir string) map[string]string {
	m := map[string]string{}
	filepath.Walk(dir, func(p string, info os.FileInfo, err error) error {
		if err != nil || info.IsDir() {
			return nil
		}
		b, _ := os.ReadFile(p)
		rel, _ := filepath.Rel(dir, p)
		m[rel] = fmt.Sprintf("%x", sha1.Sum(b))
		return nil
	})
	return m
}

func truthy(m map[string]interface{}, keys ...string) bool {
	for _, k := range keys {
		switch v := m[k].(type) {
		case bool:
			if v {
				return true
			}
		case string:
			if v != "" {
				return true
			}
		}
	}
	return false
}

// e2eCLI replays a C15/C18 counterexample: the flags (and the failing stage, as far as an input can
// force it) are taken from the model; the observable contract of the command line is checked on
// the real binary. Returns true iff the real tool deviates from the contract.
func e2eCLI(model map[string]interface{}) (bool, string) {
	tmp, err := os.MkdirTemp("", "symgo-e2e")
	if err != nil {
		return false, err.Error()
	}
	defer os.RemoveAll(tmp)
	bin, err := buildTool(tmp)
	if err != nil {
		return false, err.Error()
	}
	dry := truthy(model, "dry", "conf.DryRun", "flag.dry")
	prints := truthy(model, "print", "conf.Prints", "flag.print")
	logs := truthy(model, "conf.Log", "flag.log")
	kind := "ok"
	if truthy(model, "NewParser.err") {
		kind = "missing"
	} else if truthy(model, "Parse.err") {
		kind = "nointf"
	}
	var log strings.Builder
	deviations := 0
	dev := func(f string, a ...interface{}) {
		deviations++
		fmt.Fprintf(&log, "DEVIATION: "+f+"\n", a...)
	}
	// reference content: a plain run in a sibling module
	refDir := filepath.Join(tmp, "ref")
	writeModule(refDir, e2eSetup)
	ref := exec.Command(bin, "setup.go")
	ref.Dir = refDir
	ref.Env = goEnv()
	ref.CombinedOutput()
	refContent, _ := os.ReadFile(filepath.Join(refDir, "setup.gen.go"))

	type scenario struct {
		kind    string
		withOut bool
		prior   bool // the output path already holds an older, longer output
		current bool // the output path already holds the very output of this input (a run before this one)
		outDir  bool // -out names an existing DIRECTORY: everything succeeds up to the final rename, which fails
		fullOut bool // standard output rejects every write (/dev/full)
	}
	var scenarios []scenario
	for _, withOut := range []bool{false, true} {
		scenarios = append(scenarios, scenario{kind: kind, withOut: withOut}, scenario{kind: kind, withOut: withOut, prior: true}, scenario{kind: kind, withOut: withOut, current: true})
	}
	// the replacement itself fails at its last step; standard output rejects the printed code
	scenarios = append(scenarios, scenario{kind: kind, withOut: true, outDir: true})
	if prints {
		scenarios = append(scenarios, scenario{kind: kind, fullOut: true}, scenario{kind: kind, prior: true, fullOut: true})
	}
	// a run that fails LATE (the generated code does not format), over an absent and a present output
	scenarios = append(scenarios, scenario{kind: "latefail"}, scenario{kind: "latefail", prior: true})
	// a run whose input file does not exist (a failure that never passes through the logger)
	if kind != "missing" {
		scenarios = append(scenarios, scenario{kind: "missing"})
	}
	for si, sc := range scenarios {
		kind, withOut := sc.kind, sc.withOut
		dir := filepath.Join(tmp, fmt.Sprintf("m%d", si))
		switch kind {
		case "ok":
			writeModule(dir, e2eSetup)
		case "nointf":
			writeModule(dir, e2eNoIntf)
		case "missing":
			writeModule(dir, "")
		case "latefail":
			// a dot-imported destination type is spelled "..D2": the generated code does not
			// parse, so the run fails in the generator stage, after parsing and building
			writeModule(dir, "//go:build convergen\n\npackage e2e\n\nimport . \"e2e/sub\"\n\ntype Convergen interface {\n\tSrcToD2(*Src) *D2\n}\n")
			os.MkdirAll(filepath.Join(dir, "sub"), 0755)
			os.WriteFile(filepath.Join(dir, "sub", "sub.go"), []byte("package sub\n\ntype D2 struct {\n\tID   int\n\tName string\n}\n"), 0644)
		}
		var args []string
		outName := "setup.gen.go"
		if withOut {
			outName = "custom_out.go"
			args = append(args, "-out", outName)
		}
		if sc.outDir {
			os.MkdirAll(filepath.Join(dir, outName), 0755)
		}
		if sc.prior {
			os.WriteFile(filepath.Join(dir, outName), []byte(string(refContent)+"\n// tail of an older, longer output\nfunc Stale() {}\n"), 0644)
		}
		if sc.current {
			os.WriteFile(filepath.Join(dir, outName), refContent, 0644)
		}
		if dry {
			args = append(args, "-dry")
		}
		if prints {
			args = append(args, "-print")
		}
		if logs {
			args = append(args, "-log")
		}
		args = append(args, "setup.go")
		before := snapshot(dir)
		cmd := exec.Command(bin, args...)
		cmd.Dir = dir
		cmd.Env = goEnv()
		var stdout, stderr strings.Builder
		cmd.Stdout = &stdout
		cmd.Stderr = &stderr
		if sc.fullOut {
			if full, err := os.OpenFile("/dev/full", os.O_WRONLY, 0); err == nil {
				cmd.Stdout = full
				defer full.Close()
			} else {
				continue
			}
		}
		runErr := cmd.Run()
		exit := 0
		if runErr != nil {
			exit = 1
			if ee, ok := runErr.(*exec.ExitError); ok {
				exit = ee.ExitCode()
			}
		}
		after := snapshot(dir)
		fmt.Fprintf(&log, "$ convergen %s   (input kind %s, older output present: %v, current output present: %v, output path is a directory: %v, stdout full: %v) -> exit %d\n", strings.Join(args, " "), kind, sc.prior, sc.current, sc.outDir, sc.fullOut, exit)
		wantExit := 0
		if kind != "ok" || (sc.outDir && !dry) {
			wantExit = 1
		}
		if sc.fullOut {
			// whether a rejected print fails the run is not pinned; what a failed run leaves is (below)
			wantExit = exit
		}
		if exit != wantExit {
			dev("exit status %d, expected %d; stderr: %s", exit, wantExit, clip(stderr.String(), 300))
		}
		if exit != 0 && strings.TrimSpace(stderr.String()) == "" {
			dev("exit status %d with nothing on standard error (flags %v, input kind %s)", exit, args, kind)
		}
		logName := strings.TrimSuffix(outName, filepath.Ext(outName)) + ".log"
		allowed := map[string]bool{}
		if exit == 0 && !dry {
			allowed[outName] = true
		}
		if logs {
			allowed[logName] = true
		}
		var changed []string
		for f, h := range after {
			if before[f] != h {
				changed = append(changed, f)
			}
		}
		for f := range before {
			if _, ok := after[f]; !ok {
				changed = append(changed, f+" (deleted)")
			}
		}
		sort.Strings(changed)
		for _, f := range changed {
			if !allowed[f] {
				dev("file %s was created/modified/deleted (flags %v)", f, args)
			}
		}
		if exit == 0 && !dry {
			b, err := os.ReadFile(filepath.Join(dir, outName))
			if err != nil {
				dev("output file %s missing after a successful run", outName)
			} else if string(b) != string(refContent) {
				dev("output file content differs from the reference run")
			}
		}
		if logs {
			if _, err := os.Stat(filepath.Join(dir, logName)); err != nil {
				dev("-log given but %s does not exist", logName)
			}
		}
		if exit == 0 && !sc.fullOut {
			if prints && stdout.String() != string(refContent) {
				dev("-print: stdout differs from the generated code (stdout %d bytes, code %d bytes)", len(stdout.String()), len(refContent))
			}
			if !prints && stdout.String() != "" {
				dev("stdout not empty without -print: %s", clip(stdout.String(), 200))
			}
		}
	}
	// a write that fails half-way (file size limit below the size of the output): the run fails,
	// and the older output is still there, whole; nothing else is left behind
	{
		dir := filepath.Join(tmp, "torn")
		var fields strings.Builder
		for i := 0; i < 300; i++ {
			fmt.Fprintf(&fields, "\tF%03d int\n", i)
		}
		writeModule(dir, "//go:build convergen\n\npackage e2e\n\ntype Convergen interface {\n\tBigToBig(*Big) *Big2\n}\n")
		os.WriteFile(filepath.Join(dir, "big.go"), []byte("package e2e\n\ntype Big struct {\n"+fields.String()+"}\n\ntype Big2 struct {\n"+fields.String()+"}\n"), 0644)
		good := exec.Command(bin, "setup.go")
		good.Dir = dir
		good.Env = goEnv()
		if out, err := good.CombinedOutput(); err == nil {
			before := snapshot(dir)
			sh := exec.Command("sh", "-c", "ulimit -f 4; exec \"$0\" setup.go", bin)
			sh.Dir = dir
			sh.Env = goEnv()
			out2, err2 := sh.CombinedOutput()
			after := snapshot(dir)
			fmt.Fprintf(&log, "$ (ulimit -f 4; convergen setup.go) -> failed=%v\n", err2 != nil)
			if err2 == nil {
				fmt.Fprintf(&log, "(the size limit did not make the write fail here: scenario skipped) %s\n", clip(string(out2), 100))
			} else {
				for f, h := range after {
					if before[f] != h {
						dev("a run whose write failed half-way changed %s (%s)", f, clip(string(out2), 150))
					}
				}
				for f := range before {
					if _, ok := after[f]; !ok {
						dev("a run whose write failed half-way deleted %s", f)
					}
				}
			}
		} else {
			fmt.Fprintf(&log, "(torn-write scenario: the preparing run failed: %s)\n", clip(string(out), 150))
		}
	}
	return deviations > 0, log.String()
}

// e2eRegen replays a C12 counterexample end to end: whatever the output path holds before a run
// (older/longer output, every kind of truncation, broken Go of the same package), the run must
// behave exactly as on an empty path; -out naming the input must be rejected without touching it.
func e2eRegen(model map[string]interface{}) (bool, string) {
	tmp, err := os.MkdirTemp("", "symgo-e2e")
	if err != nil {
		return false, err.Error()
	}
	defer os.RemoveAll(tmp)
	bin, err := buildTool(tmp)
	if err != nil {
		return false, err.Error()
	}
	var log strings.Builder
	deviations := 0
	dev := func(f string, a ...interface{}) {
		deviations++
		fmt.Fprintf(&log, "DEVIATION: "+f+"\n", a...)
	}
	run := func(dir string, args ...string) (int, string) {
		cmd := exec.Command(bin, args...)
		cmd.Dir = dir
		cmd.Env = goEnv()
		out, err := cmd.CombinedOutput()
		if err != nil {
			if ee, ok := err.(*exec.ExitError); ok {
				return ee.ExitCode(), string(out)
			}
			return 1, string(out)
		}
		return 0, string(out)
	}
	ref := filepath.Join(tmp, "ref")
	writeModule(ref, e2eSetup)
	if rc, out := run(ref, "setup.go"); rc != 0 {
		return false, "reference run failed: " + out
	}
	want, _ := os.ReadFile(filepath.Join(ref, "setup.gen.go"))
	longer := string(want) + "\n// trailing content of an older, longer output\nfunc Stale() {}\n"
	states := map[string]string{"longer older output": longer, "empty file": "", "broken Go": "package e2e\n\nfunc ( {\n",
		"only a comment": "// Code generated\n", "wrong declarations": "package e2e\n\ntype Src int\n"}
	for _, cut := range []int{1, 10, 40, 60, 75, 90, 120, len(want) / 2, len(want) - 1} {
		if cut > 0 && cut < len(want) {
			states[fmt.Sprintf("truncated at byte %d", cut)] = string(want[:cut])
		}
	}
	var keys []string
	for k := range states {
		keys = append(keys, k)
	}
	sort.Strings(keys)
	// (a write interrupted inside the package name leaves a valid clause of ANOTHER package)
	states["package clause cut inside the name"] = "package e2\n"
	keys = append(keys, "package clause cut inside the name")
	for _, k := range keys {
		// the output path is given by default, or spelled as an absolute path
		for _, spelling := range []string{"default", "absolute -out"} {
			dir := filepath.Join(tmp, "m")
			os.RemoveAll(dir)
			writeModule(dir, e2eSetup)
			os.WriteFile(filepath.Join(dir, "setup.gen.go"), []byte(states[k]), 0644)
			args := []string{"setup.go"}
			if spelling != "default" {
				args = []string{"-out", filepath.Join(dir, "setup.gen.go"), "setup.go"}
			}
			rc, out := run(dir, args...)
			got, _ := os.ReadFile(filepath.Join(dir, "setup.gen.go"))
			fmt.Fprintf(&log, "output path (%s) holds: %s -> exit %d\n", spelling, k, rc)
			if rc != 0 {
				dev("run (%s) fails when the output path holds %s: %s", spelling, k, clip(out, 300))
			} else if string(got) != string(want) {
				dev("output (%s) differs from a run on an empty path when the output path held %s", spelling, k)
			}
		}
	}
	// twice in a row
	dir := filepath.Join(tmp, "twice")
	writeModule(dir, e2eSetup)
	run(dir, "setup.go")
	rc, _ := run(dir, "setup.go")
	got, _ := os.ReadFile(filepath.Join(dir, "setup.gen.go"))
	if rc != 0 || string(got) != string(want) {
		dev("second run in a row changes the result (exit %d)", rc)
	}
	// started from another working directory (outside the module), input given by its absolute path
	dir = filepath.Join(tmp, "othercwd")
	writeModule(dir, e2eSetup)
	rc, out0 := run(tmp, filepath.Join(dir, "setup.go"))
	got, _ = os.ReadFile(filepath.Join(dir, "setup.gen.go"))
	if rc != 0 || string(got) != string(want) {
		dev("a run started from another working directory differs (exit %d): %s", rc, clip(out0, 200))
	}
	// a run killed between creating its temporary file and renaming it leaves that file behind:
	// whatever it is called, the next run repairs the output
	var out string
	dir = filepath.Join(tmp, "leftover")
	writeModule(dir, e2eSetup)
	for _, n := range []string{"setup.gen.go.tmp", ".setup.gen.go.tmp", "setup.gen.go~", "setup.gen.tmp"} {
		os.WriteFile(filepath.Join(dir, n), []byte("package e2e\n\n// half of an out"), 0644)
	}
	rc, out = run(dir, "setup.go")
	got, _ = os.ReadFile(filepath.Join(dir, "setup.gen.go"))
	if rc != 0 || string(got) != string(want) {
		dev("a run next to the leftover temporary file of a killed run differs (exit %d): %s", rc, clip(out, 200))
	}
	// the package lives in a sub-directory, the input is given relative to the module root, and the
	// output path holds a stale file that still names the package's former name
	dir = filepath.Join(tmp, "subdir")
	os.MkdirAll(filepath.Join(dir, "conv"), 0755)
	os.WriteFile(filepath.Join(dir, "go.mod"), []byte("module e2e\n\ngo 1.19\n"), 0644)
	os.WriteFile(filepath.Join(dir, "conv", "types.go"), []byte(e2eTypes), 0644)
	os.WriteFile(filepath.Join(dir, "conv", "setup.go"), []byte(e2eSetup), 0644)
	for _, stale := range []string{"package old\n", "package old\n\nfunc SrcToDst() {}\n"} {
		os.WriteFile(filepath.Join(dir, "conv", "setup.gen.go"), []byte(stale), 0644)
		rc, out = run(dir, "conv/setup.go")
		got, _ = os.ReadFile(filepath.Join(dir, "conv", "setup.gen.go"))
		if rc != 0 || string(got) != string(want) {
			dev("input given relative to the module root (conv/setup.go), stale output of a package of another name: exit %d: %s", rc, clip(out, 200))
		}
	}
	// the generated code needs an import the setup file does not have (the import optimiser finds it
	// in a sibling file); the output path holds the output of an OLDER version of the package, which
	// imported another package of the same name: the result is that of a run on an empty path
	dir = filepath.Join(tmp, "imp")
	for _, v := range []string{"v1", "v2"} {
		os.MkdirAll(filepath.Join(dir, v, "level"), 0755)
		os.WriteFile(filepath.Join(dir, v, "level", "level.go"), []byte("package level\n\ntype Level int\n"), 0644)
	}
	os.WriteFile(filepath.Join(dir, "go.mod"), []byte("module e2e\n\ngo 1.19\n"), 0644)
	os.WriteFile(filepath.Join(dir, "types.go"), []byte("package e2e\n\nimport \"e2e/v2/level\"\n\ntype Src struct{ Lv int }\n\ntype Dst struct{ Lv level.Level }\n"), 0644)
	os.WriteFile(filepath.Join(dir, "setup.go"), []byte("//go:build convergen\n\npackage e2e\n\n// :typecast\ntype Convergen interface {\n\tToDst(*Src) *Dst\n}\n"), 0644)
	if rc, out = run(dir, "setup.go"); rc != 0 {
		fmt.Fprintf(&log, "(import scenario skipped: the reference run fails: %s)\n", clip(out, 200))
	} else {
		fresh, _ := os.ReadFile(filepath.Join(dir, "setup.gen.go"))
		if !strings.Contains(string(fresh), "e2e/v2/level") {
			fmt.Fprintf(&log, "(import scenario skipped: the fresh output does not import e2e/v2/level)\n")
		} else {
			os.WriteFile(filepath.Join(dir, "setup.gen.go"), []byte(strings.ReplaceAll(string(fresh), "e2e/v2/level", "e2e/v1/level")), 0644)
			rc, out = run(dir, "setup.go")
			got, _ = os.ReadFile(filepath.Join(dir, "setup.gen.go"))
			fmt.Fprintf(&log, "output path holds the output of an older package version (other import of the same name) -> exit %d\n", rc)
			if rc != 0 || string(got) != string(fresh) {
				dev("a stale output importing another package of the same name changes the result (exit %d): %s", rc, clip(out, 200))
			}
		}
	}
	// -out naming the input file
	dir = filepath.Join(tmp, "outin")
	writeModule(dir, e2eSetup)
	rc, out = run(dir, "-out", "setup.go", "setup.go")
	after, _ := os.ReadFile(filepath.Join(dir, "setup.go"))
	if rc == 0 || string(after) != e2eSetup {
		dev("-out naming the input file: exit %d, input file modified=%v: %s", rc, string(after) != e2eSetup, clip(out, 200))
	}
	// -out spelled through a symbolic link to the package directory, over a stale output of another package
	dir = filepath.Join(tmp, "dirlink")
	writeModule(dir, e2eSetup)
	if err := os.Symlink(dir, filepath.Join(tmp, "dirlink-alias")); err == nil {
		os.WriteFile(filepath.Join(dir, "setup.gen.go"), []byte("package e2\n"), 0644)
		rc, out1 := run(dir, "-out", filepath.Join(tmp, "dirlink-alias", "setup.gen.go"), "setup.go")
		got, _ = os.ReadFile(filepath.Join(dir, "setup.gen.go"))
		if rc != 0 || string(got) != string(want) {
			dev("-out spelled through a link to the package directory, stale output of another package: exit %d: %s", rc, clip(out1, 200))
		}
	}
	// -out naming a symbolic link (in another directory) to the input file
	dir = filepath.Join(tmp, "outlink")
	writeModule(dir, e2eSetup)
	os.MkdirAll(filepath.Join(dir, "linked"), 0755)
	if err := os.Symlink(filepath.Join("..", "setup.go"), filepath.Join(dir, "linked", "alias.go")); err == nil {
		rc, out = run(dir, "-out", filepath.Join("linked", "alias.go"), "setup.go")
		after, _ = os.ReadFile(filepath.Join(dir, "setup.go"))
		if rc == 0 || string(after) != e2eSetup {
			dev("-out naming a link to the input file: exit %d, input file modified=%v: %s", rc, string(after) != e2eSetup, clip(out, 200))
		}
	}
	return deviations > 0, log.String()
}

func mint(m map[string]interface{}, k string) int {
	switch v := m[k].(type) {
	case float64:
		return int(v)
	case int64:
		return int(v)
	case int:
		return v
	}
	return 0
}

// renderLayout renders a C03MarkerLayout model as a setup file: token.Pos p = byte offset p-1.
func renderLayout(m map[string]interface{}) string {
	size := maxPosLayout + 200
	buf := []byte(strings.Repeat(" ", size))
	put := func(pos int, text string) { copy(buf[pos-1:], text) }
	if truthy(m, "generateIsPackageDoc") {
		put(1, "//go:build convergen\n\n//go:generate x\npackage e2e\n\n")
	} else {
		put(1, "//go:build convergen\n\npackage e2e\n\n")
	}
	comment := func(pos, lines int, name string) {
		p := pos
		for i := 0; i < lines; i++ {
			put(p, "// "+name+"\n")
			p += len("// "+name) + 1
		}
	}
	intf := func(decl string, lb, rb int, method bool) {
		put(lb-len(decl), decl)
		put(lb, "{")
		if method {
			put(lb+1, "\nF(*S)*D\n")
		}
		put(rb, "}\n")
	}
	if truthy(m, "commentBeforeA") {
		comment(mint(m, "before.pos"), 1+mint(m, "before.lines"), "before")
	}
	la, ra := mint(m, "A.lbrace"), mint(m, "A.rbrace")
	// (the line break in front keeps a preceding comment a group of its own instead of the interface's doc comment)
	if truthy(m, "commentInHeadOfA") {
		// "type", a comment in the head of the declaration, then " Convergen interface " before the brace
		put(mint(m, "A.type")-1, "\ntype ")
		comment(mint(m, "head.pos"), 1, "head")
		intf(" Convergen interface ", la, ra, truthy(m, "A.hasMethod"))
	} else {
		intf("\ntype Convergen interface ", la, ra, truthy(m, "A.hasMethod"))
	}
	if truthy(m, "commentInsideA") {
		comment(mint(m, "inside.pos"), 1, "in")
	}
	end := ra
	if truthy(m, "twoInterfaces") {
		lb, rb := mint(m, "B.lbrace"), mint(m, "B.rbrace")
		intf("\n// :convergen\ntype B interface ", lb, rb, false)
		if truthy(m, "commentBetween") {
			comment(mint(m, "between.pos"), 1, "mid")
		}
		end = rb
	}
	if truthy(m, "commentAfter") {
		comment(mint(m, "after.pos"), 1, "after")
		end = mint(m, "after.pos") + 10
	}
	src := strings.TrimRight(string(buf[:end+12]), " ") + "\n"
	return src
}

const maxPosLayout = 400

// e2eLayout replays a C03MarkerLayout counterexample: the layout is rendered as a real setup file
// (interfaces A and B are marked converter interfaces), the tool built from the current tree must
// accept it and emit one function per method in a file that parses.
func e2eLayout(model map[string]interface{}) (bool, string) {
	tmp, err := os.MkdirTemp("", "symgo-e2e")
	if err != nil {
		return false, err.Error()
	}
	defer os.RemoveAll(tmp)
	bin, err := buildTool(tmp)
	if err != nil {
		return false, err.Error()
	}
	dir := filepath.Join(tmp, "m")
	os.MkdirAll(dir, 0755)
	os.WriteFile(filepath.Join(dir, "go.mod"), []byte("module e2e\n\ngo 1.19\n"), 0644)
	os.WriteFile(filepath.Join(dir, "types.go"), []byte("package e2e\n\ntype S struct{ X int }\n\ntype D struct{ X int }\n"), 0644)
	src := renderLayout(model)
	os.WriteFile(filepath.Join(dir, "setup.go"), []byte(src), 0644)
	cmd := exec.Command(bin, "-dry", "-print", "setup.go")
	cmd.Dir = dir
	cmd.Env = goEnv()
	var stdout, stderr strings.Builder
	cmd.Stdout, cmd.Stderr = &stdout, &stderr
	runErr := cmd.Run()
	log := "setup file rendered from the model:\n" + src + "\n--- convergen -dry -print setup.go\n" + stderr.String() + stdout.String()
	if runErr != nil {
		return true, "DEVIATION: the tool rejects a well-formed setup file\n" + log
	}
	wantFuncs := 0
	if truthy(model, "A.hasMethod") {
		wantFuncs = 1
	}
	if n := strings.Count(stdout.String(), "\nfunc F("); n != wantFuncs {
		return true, fmt.Sprintf("DEVIATION: %d functions emitted, %d methods declared\n%s", n, wantFuncs, log)
	}
	if strings.Contains(stdout.String(), "interface") {
		return true, "DEVIATION: interface or marker left in the output\n" + log
	}
	// comments outside the converter interfaces are carried over (C11)
	for flag, text := range map[string]string{"commentBeforeA": "// before", "commentAfter": "// after"} {
		if truthy(model, flag) && !strings.Contains(stdout.String(), text) {
			return true, "DEVIATION: comment '" + text + "' outside the converter interfaces is missing from the output\n" + log
		}
	}
	if truthy(model, "twoInterfaces") && truthy(model, "commentBetween") && !strings.Contains(stdout.String(), "// mid") {
		return true, "DEVIATION: comment '// mid' between the converter interfaces is missing from the output\n" + log
	}
	return false, log
}
