package main

import (
	"crypto/sha1"
	"encoding/json"
	"fmt"
	"os"
	"os/exec"
	"path/filepath"
	"strings"
	"sync"

	"verif/engine/sym"
)

func replayRoot() string {
	if d := os.Getenv("VERIF_REPLAY_DIR"); d != "" {
		return d
	}
	return filepath.Join(verifDir, "replay")
}

// replayViolation writes the replay artefact for v and re-runs the harness natively
// (go test -tags verif -overlay ...) with the solver's model as replay table.
// It returns the artefact path and whether the violation reproduced against the real build.
func replayViolation(prop string, v sym.Violation) (string, bool, string) {
	mj, _ := json.Marshal(v.Model)
	h := sha1.Sum(append([]byte(v.Harness+"|"+v.Label+"|"), mj...))
	dir := filepath.Join(replayRoot(), prop, fmt.Sprintf("%x", h[:6]))
	os.MkdirAll(dir, 0755)
	model := map[string]interface{}{"harness": v.Harness, "failed": v.Label, "inputs": v.Model, "path": v.Decisions, "detail": v.Detail, "pc": v.PC}
	b, _ := json.MarshalIndent(model, "", " ")
	os.WriteFile(filepath.Join(dir, "model.json"), b, 0644)
	spec := findSpecFor(prop, v.Harness)
	mode := "native"
	if spec != nil && spec.Replay != "" {
		mode = spec.Replay
	}
	switch mode {
	case "e2e-layout":
		ok, out := e2eLayout(v.Model)
		os.WriteFile(filepath.Join(dir, "observed.txt"), []byte(out), 0644)
		os.WriteFile(filepath.Join(dir, "cmd.sh"), []byte(fmt.Sprintf("#!/bin/sh\n/verif/check %s --replay %s\n", prop, dir)), 0755)
		if ok {
			return dir, true, "reproduced end-to-end with the built binary"
		}
		return dir, false, "the built binary accepts the rendered layout: " + clip(strings.TrimSpace(out), 200)
	case "e2e-regen":
		ok, out := e2eRegen(v.Model)
		os.WriteFile(filepath.Join(dir, "observed.txt"), []byte(out), 0644)
		os.WriteFile(filepath.Join(dir, "cmd.sh"), []byte(fmt.Sprintf("#!/bin/sh\n/verif/check %s --replay %s\n", prop, dir)), 0755)
		if ok {
			return dir, true, "reproduced end-to-end with the built binary"
		}
		return dir, false, "end-to-end regeneration runs behave as on an empty output path: " + clip(strings.TrimSpace(out), 300)
	case "e2e-cli":
		ok, out := e2eCLI(v.Model)
		os.WriteFile(filepath.Join(dir, "observed.txt"), []byte(out), 0644)
		os.WriteFile(filepath.Join(dir, "cmd.sh"), []byte(fmt.Sprintf("#!/bin/sh\n/verif/check %s --replay %s\n", prop, dir)), 0755)
		if ok {
			return dir, true, "reproduced end-to-end with the built binary"
		}
		return dir, false, "end-to-end run of the built binary conforms to the CLI contract: " + clip(strings.TrimSpace(out), 300)
	case "none":
		note := "no native replay available for this harness (environment-stub harness); symbolic re-execution only"
		os.WriteFile(filepath.Join(dir, "observed.txt"), []byte(note+"\n"), 0644)
		return dir, true, note
	default:
		ok, out := nativeReplay(v.Harness, v.Label, filepath.Join(dir, "model.json"))
		for try := 0; !ok && v.Permuted && try < 60; try++ {
			// the failure depends on Go's random map iteration order: repeat the native run
			ok, out = nativeReplay(v.Harness, v.Label, filepath.Join(dir, "model.json"))
		}
		os.WriteFile(filepath.Join(dir, "observed.txt"), []byte(out), 0644)
		os.WriteFile(filepath.Join(dir, "cmd.sh"), []byte(fmt.Sprintf("#!/bin/sh\n/verif/check %s --replay %s\n", prop, dir)), 0755)
		if ok {
			return dir, true, "reproduced natively"
		}
		return dir, false, "native run did not fail assertion " + v.Label + ": " + clip(strings.TrimSpace(out), 300)
	}
}

// replayBinary builds the native replay test binary once per process.
var (
	replayBinOnce sync.Once
	replayBinPath string
	replayBinErr  string
	replayBinDir  string
)

func replayBinary() (string, string) {
	replayBinOnce.Do(func() {
		ovDir, err := os.MkdirTemp("", "symgo-ov")
		if err != nil {
			replayBinErr = err.Error()
			return
		}
		replayBinDir = ovDir
		repl := map[string]string{}
		add := func(realDir, virtDir string) {
			ents, _ := os.ReadDir(realDir)
			for _, e := range ents {
				if strings.HasSuffix(e.Name(), ".go") {
					repl[filepath.Join(virtDir, e.Name())] = filepath.Join(realDir, e.Name())
				}
			}
		}
		add(filepath.Join(verifDir, "harness/zz_verif"), filepath.Join(repoDir, "pkg/zz_verif"))
		add(filepath.Join(verifDir, "engine/vrt"), filepath.Join(repoDir, "pkg/vrt"))
		for virt, real := range inPkgOverlay() {
			repl[virt] = real
		}
		ovb, _ := json.Marshal(map[string]interface{}{"Replace": repl})
		ovPath := filepath.Join(ovDir, "overlay.json")
		os.WriteFile(ovPath, ovb, 0644)
		bin := filepath.Join(ovDir, "replay.test")
		build := exec.Command("go", "test", "-c", "-tags", "verif", "-vet=off", "-overlay", ovPath, "-o", bin, "./pkg/zz_verif")
		build.Dir = repoDir
		build.Env = goEnv()
		if bout, err := build.CombinedOutput(); err != nil {
			replayBinErr = "replay build failed: " + string(bout)
			return
		}
		replayBinPath = bin
	})
	return replayBinPath, replayBinErr
}

func cleanupReplayBinary() {
	if replayBinDir != "" {
		os.RemoveAll(replayBinDir)
	}
}

// materializeSkeletons copies the skeleton module to a scratch directory and substitutes the
// notation slots by the choices of the model (slot.<name> inputs; 0 when absent).
func materializeSkeletons(model map[string]interface{}) (string, error) {
	root := filepath.Join(verifDir, "skeletons")
	dst, err := os.MkdirTemp("", "symgo-sk")
	if err != nil {
		return "", err
	}
	err = filepath.Walk(root, func(p string, info os.FileInfo, err error) error {
		if err != nil {
			return err
		}
		rel, _ := filepath.Rel(root, p)
		if info.IsDir() {
			return os.MkdirAll(filepath.Join(dst, rel), 0755)
		}
		b, err := os.ReadFile(p)
		if err != nil {
			return err
		}
		if strings.HasSuffix(p, ".go") {
			slots := sym.LoadSlots(filepath.Dir(p))
			if len(slots) > 0 {
				b = sym.SubstituteSlotsForModel(b, slots, model)
			}
		}
		return os.WriteFile(filepath.Join(dst, rel), b, 0644)
	})
	return dst, err
}

func runNative(harness, modelPath string) string {
	if strings.Contains(harness, ".G_") {
		return corpusNative(harness, modelPath)
	}
	bin, errs := replayBinary()
	if bin == "" {
		return errs
	}
	var m struct {
		Inputs map[string]interface{} `json:"inputs"`
	}
	if b, err := os.ReadFile(modelPath); err == nil {
		json.Unmarshal(b, &m)
	}
	skDir, err := materializeSkeletons(m.Inputs)
	if err != nil {
		return "materialize skeletons: " + err.Error()
	}
	defer os.RemoveAll(skDir)
	cmd := exec.Command(bin, "-test.run", "^TestVerifReplay$", "-test.v")
	cmd.Dir = skDir // inside the skeleton module, so that convergen's own go list resolves it
	cmd.Env = append(goEnv(), "VERIF_REPLAY="+modelPath, "VERIF_HARNESS="+harness, "VERIF_SK_DIR="+skDir)
	out, _ := cmd.CombinedOutput()
	// paths inside the materialised skeleton module are reported relative to the catalogue root
	return strings.ReplaceAll(string(out), skDir, filepath.Join(verifDir, "skeletons"))
}

// validateSamples replays sampled assertion-clean paths natively: the real build must not fail any
// assertion nor panic, and concrete observations must agree. Returns (validated, mismatches).
func validateSamples(res *sym.HarnessResult) (int, []string) {
	var mism []string
	n := 0
	dir, err := os.MkdirTemp("", "symgo-val")
	if err != nil {
		return 0, []string{err.Error()}
	}
	defer os.RemoveAll(dir)
	for i, vs := range res.Validation {
		model := map[string]interface{}{"harness": res.Name, "inputs": vs.Model}
		b, _ := json.Marshal(model)
		mp := filepath.Join(dir, fmt.Sprintf("m%d.json", i))
		os.WriteFile(mp, b, 0644)
		out := runNative(res.Name, mp)
		if !strings.Contains(out, "VRT-DONE") {
			mism = append(mism, fmt.Sprintf("%s path %v: native run did not complete: %s", res.Name, vs.Decisions, clip(out, 300)))
			continue
		}
		if strings.Contains(out, "VRT-ASSERT-FAILED") || strings.Contains(out, "VRT-PANIC") || strings.Contains(out, "VRT-ASSUME-FAILED") {
			mism = append(mism, fmt.Sprintf("%s path %v: encoder says the path is assertion-clean, the real build disagrees: %s", res.Name, vs.Decisions, clip(out, 400)))
			continue
		}
		ok := true
		for label, want := range vs.Obs {
			if !strings.Contains(out, "VRT-LOG observe "+label+" = "+want+"\n") && !strings.Contains(out, "VRT-LOG observe "+label+" = "+want) {
				mism = append(mism, fmt.Sprintf("%s path %v: observation %s differs natively (engine %q)", res.Name, vs.Decisions, label, clip(want, 120)))
				ok = false
			}
		}
		if ok {
			n++
		}
	}
	return n, mism
}

// nativeReplay runs the harness natively with the model; ok iff assertion `label` failed natively
// (or a Go panic occurred for label no-panic).
func nativeReplay(harness, label, modelPath string) (bool, string) {
	s0 := runNative(harness, modelPath)
	out := []byte(s0)
	s := string(out)
	if strings.HasPrefix(label, "cross-path:") {
		return strings.Contains(s, "VRT-ASSERT-FAILED cross-path"), s
	}
	if label == "no-panic" {
		return strings.Contains(s, "VRT-PANIC"), s
	}
	if strings.Contains(s, "VRT-ASSERT-FAILED "+label+"\n") || strings.Contains(s, "VRT-ASSERT-FAILED "+label+" ") {
		return true, s
	}
	// The same inputs make the real code fail ANOTHER assertion of the same harness (typically an
	// earlier one: a stage that is environment in the symbolic run, such as the import optimiser,
	// really fails on the broken text). The input violates the property all the same.
	if i := strings.Index(s, "VRT-ASSERT-FAILED "); i >= 0 {
		line := s[i:]
		if j := strings.IndexByte(line, '\n'); j >= 0 {
			line = line[:j]
		}
		return true, "NOTE: natively the same inputs fail a different assertion of the harness: " + line + "\n" + s
	}
	return false, s
}

func cmdReplay(prop, path string) int {
	b, err := os.ReadFile(filepath.Join(path, "model.json"))
	if err != nil {
		fmt.Fprintln(os.Stderr, err)
		return 2
	}
	var m struct {
		Harness string                 `json:"harness"`
		Failed  string                 `json:"failed"`
		Inputs  map[string]interface{} `json:"inputs"`
	}
	json.Unmarshal(b, &m)
	var ok bool
	var out string
	if strings.HasPrefix(m.Harness, "corpus:") {
		// re-run the tool built from the current tree on the corpus case and compile its output
		w := getCorpus()
		defer cleanupCorpus()
		cs := strings.TrimPrefix(m.Harness, "corpus:")
		if w.err != nil {
			fmt.Println("CORPUS-ERROR:", w.err)
			return 2
		}
		if why, bad := w.caseFail[cs]; bad {
			fmt.Println(why)
			fmt.Printf("VIOLATION property=%s replay=%s\n", prop, path)
			return 1
		}
		fmt.Println("corpus case", cs, "generates and compiles on the current tree")
		return 0
	}
	if spec := findSpecFor(prop, m.Harness); spec != nil && spec.Replay == "e2e-layout" {
		ok, out = e2eLayout(m.Inputs)
	} else if spec := findSpecFor(prop, m.Harness); spec != nil && spec.Replay == "e2e-regen" {
		ok, out = e2eRegen(m.Inputs)
	} else if spec := findSpecFor(prop, m.Harness); spec != nil && spec.Replay == "e2e-cli" {
		ok, out = e2eCLI(m.Inputs)
	} else {
		ok, out = nativeReplay(m.Harness, m.Failed, filepath.Join(path, "model.json"))
	}
	fmt.Print(out)
	if ok {
		fmt.Printf("VIOLATION property=%s replay=%s\n", prop, path)
		return 1
	}
	fmt.Println("replay did not reproduce the violation")
	return 0
}
